#!/bin/bash
# Offline setup: make sure /venv can import what the checks need; nothing is fetched from a network.
set -u
HERE="$(cd "$(dirname "$0")" && pwd)"
cd "$HERE"
PY=/venv/bin/python
if ! $PY -c "import hypothesis" 2>/dev/null; then
  mkdir -p "$HERE/.deps"
  /venv/bin/pip install --no-index --find-links /opt/veriftools/wheels --target "$HERE/.deps" hypothesis || { echo "setup: cannot install hypothesis offline"; exit 1; }
fi
PYTHONPATH="/repo:$HERE:$HERE/.deps" $PY - <<'PYEOF' || exit 1
import hypothesis, jax, numpy, scipy, pyscf, h5py
print("setup ok: hypothesis", hypothesis.__version__, "jax", jax.__version__, "pyscf", pyscf.__version__)
PYEOF
mkdir -p evidence replays
exit 0
