#!/bin/bash
# tools/collect_seed.sh <tag>: archive /tmp/wt_<tag>/_seeded into /verif/seeded/<tag>, remove the agent's worktree, confirm in a fresh one
T=$1
mkdir -p /verif/seeded/$T
git -C /tmp/wt_$T diff -- ad_afqmc > /verif/seeded/$T/patch.diff
cp /tmp/wt_$T/_seeded/demo.py /tmp/wt_$T/_seeded/meta.json /verif/seeded/$T/ 2>/dev/null
git -C /repo worktree remove --force /tmp/wt_$T
/verif/tools/verify_seed.sh $T
