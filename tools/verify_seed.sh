#!/bin/bash
# tools/verify_seed.sh <subdir>  - confirm the archived seeded change /verif/seeded/<subdir>/patch.diff in a fresh scratch
# worktree of /repo HEAD: demo fails with it, passes without it, the repository's test suite gives the baseline result with it.
SUB=$1; WT=/tmp/vs_$SUB
git -C /repo worktree add --detach $WT HEAD >/dev/null 2>&1 || exit 2
cd $WT
mkdir -p _seeded && cp /verif/seeded/$SUB/demo.py _seeded/demo.py
PYTHONPATH=$WT timeout 900 /venv/bin/python _seeded/demo.py > /tmp/seed_$SUB.without.log 2>&1; WO=$?
git apply /verif/seeded/$SUB/patch.diff || { echo "$SUB: patch does not apply"; cd /; git -C /repo worktree remove --force $WT; exit 2; }
PYTHONPATH=$WT timeout 900 /venv/bin/python _seeded/demo.py > /tmp/seed_$SUB.with.log 2>&1; W=$?
timeout 1500 /venv/bin/python -m pytest -q -p no:cacheprovider --timeout=900 tests/ -n 4 > /tmp/seed_$SUB.tests.log 2>&1; T=$?
TAIL=$(tail -1 /tmp/seed_$SUB.tests.log)
FAILED=$(grep -c '^FAILED' /tmp/seed_$SUB.tests.log)
FAILNAMES=$(grep '^FAILED' /tmp/seed_$SUB.tests.log | awk '{print $2}' | tr '\n' ' ')
echo "$SUB: demo_with_patch_exit=$W demo_without_patch_exit=$WO tests: $TAIL failed=[$FAILNAMES]"
echo "{\"demo_with_patch_exit\": $W, \"demo_without_patch_exit\": $WO, \"tests_tail\": \"$TAIL\", \"tests_failed\": \"$FAILNAMES\", \"repo_head\": \"$(git -C /repo rev-parse --short HEAD)\"}" > /verif/seeded/$SUB/confirmed.json
cd / && git -C /repo worktree remove --force $WT
