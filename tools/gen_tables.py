#!/venv/bin/python
"""Render tools/mutants_results.json and tools/seeded_results.json into tools/SENSITIVITY.md."""
import json, os
HERE = os.path.dirname(os.path.dirname(os.path.abspath(__file__)))
mt = {m["name"]: m for m in json.load(open(os.path.join(HERE, "tools", "mutants_table.json")))}
mr = json.load(open(os.path.join(HERE, "tools", "mutants_results.json"))) if os.path.exists(os.path.join(HERE, "tools", "mutants_results.json")) else {}
sr = json.load(open(os.path.join(HERE, "tools", "seeded_results.json"))) if os.path.exists(os.path.join(HERE, "tools", "seeded_results.json")) else {}
EQUIV = {"c15_rotate_einsum_transposed": "equivalent on the domain (symmetric Cholesky matrices)", "c13_qr_restricted_norm_abs": "equivalent (real diagonal of R)",
         "c19_outlier_le": "equivalent up to the code's 1e-10 MAD regularisation", "c04_mf_shift_sign": "equivalent for C04 (any consistent shift is unbiased)"}
lines = ["# Sensitivity of the checks (machine-written by tools/gen_tables.py)", "", "## Source mutants (quick tier, exit 1 required)", "", "| mutant | file | property | result | buckets |", "|---|---|---|---|---|"]
caught = missed = 0
for name in sorted(mt):
    m = mt[name]
    r = mr.get(name)
    if r is None:
        lines.append(f"| {name} | {m['file']} | {','.join(m['props'])} | not run | |")
        continue
    for pid, v in r.items():
        if not isinstance(v, dict):
            continue
        ok = v.get("exit") == 1
        caught += ok
        missed += (not ok)
        note = "CAUGHT" if ok else ("MISSED - " + EQUIV[name] if name in EQUIV else f"MISSED (exit {v.get('exit')})")
        lines.append(f"| {name} | {m['file']} | {pid} | {note} | {', '.join(v.get('buckets', [])[:3])} |")
lines += ["", f"Totals: {caught} caught, {missed} not caught (of which {sum(1 for n in EQUIV if n in mr)} argued equivalent).", "", "## Independently seeded changes (quick tier)", "", "| seeded change | property | result | buckets |", "|---|---|---|---|"]
for name in sorted(sr):
    v = sr[name]
    lines.append(f"| {name} | {v['property']} | {'CAUGHT' if v['exit'] == 1 else 'MISSED (exit %s)' % v['exit']} | {', '.join(v.get('buckets', [])[:3])} |")
open(os.path.join(HERE, "tools", "SENSITIVITY.md"), "w").write("\n".join(lines) + "\n")
print(f"mutants: {caught} caught, {missed} missed; seeded: {sum(1 for v in sr.values() if v['exit']==1)}/{len(sr)} caught")
