#!/bin/bash
# run the thorough tier of the listed checks one after another; summary lines only
cd "$(dirname "$0")/.."
for p in "$@"; do
  start=$(date +%s)
  ./check "$p" --tier thorough > "/tmp/thorough_$p.log" 2>&1
  rc=$?
  echo "== $p exit=$rc wall=$(( $(date +%s) - start ))s"
  grep -E "^\[C|VIOLATION|KNOWN-FINDING|HARNESS|violation bucket|error" "/tmp/thorough_$p.log" | cut -c1-400 | head -40
done
