#!/venv/bin/python
"""Run the quick tier of the property each archived seeded change breaks, with the change applied to /repo
(git apply ... ; git checkout -- . afterwards), and record whether it was caught in tools/seeded_results.json."""
import json, os, subprocess, sys
HERE = os.path.dirname(os.path.dirname(os.path.abspath(__file__)))
RES = os.path.join(HERE, "tools", "seeded_results.json")
res = json.load(open(RES)) if os.path.exists(RES) else {}
sel = sys.argv[1:]
for sub in sorted(os.listdir(os.path.join(HERE, "seeded"))):
    if sel and sub not in sel and sub.split("-")[0] not in sel:
        continue
    d = os.path.join(HERE, "seeded", sub)
    meta = json.load(open(os.path.join(d, "meta.json")))
    pid = meta["property"]
    env = dict(os.environ, VERIF_EVIDENCE_DIR="/tmp/seeded_evidence", VERIF_REPLAY_DIR="/tmp/seeded_replays")
    if os.environ.get("SEED_SCRATCH"):
        # while another run is reading /repo: apply the change to a scratch copy instead and point the check at it
        import shutil
        scratch = f"/tmp/seedrepo_{sub}"
        shutil.rmtree(scratch, ignore_errors=True)
        subprocess.check_call(["git", "clone", "-q", "/repo", scratch])
        subprocess.check_call(["git", "-C", scratch, "apply", os.path.join(d, "patch.diff")])
        try:
            r = subprocess.run([os.path.join(HERE, "check"), pid, "--tier", "quick"], env=dict(env, VERIF_REPO=scratch), capture_output=True, text=True)
        finally:
            shutil.rmtree(scratch, ignore_errors=True)
    else:
        assert subprocess.run(["git", "-C", "/repo", "status", "--porcelain"], capture_output=True, text=True).stdout.strip() == "", "/repo not clean"
        subprocess.check_call(["git", "-C", "/repo", "apply", os.path.join(d, "patch.diff")])
        try:
            r = subprocess.run([os.path.join(HERE, "check"), pid, "--tier", "quick"], env=env, capture_output=True, text=True)
        finally:
            subprocess.check_call(["git", "-C", "/repo", "checkout", "--", "."])
    buckets = [l.split("bucket=")[1].split(" ")[0] for l in r.stdout.splitlines() if "violation bucket" in l]
    res[sub] = {"property": pid, "exit": r.returncode, "buckets": buckets[:8]}
    print(("CAUGHT " if r.returncode == 1 else "MISSED ") + sub, r.returncode, buckets[:4], flush=True)
json.dump(res, open(RES, "w"), indent=1, sort_keys=True)
