#!/venv/bin/python
"""Sensitivity protocol: apply a source mutant to a scratch copy of /repo, run the quick tier of the
properties it should break with VERIF_REPO pointing at the copy, require exit 1, delete the copy.

    tools/mutants.py            # all mutants
    tools/mutants.py C07        # mutants of one property
    tools/mutants.py name1 ...  # selected mutants
Results are appended to tools/mutants_results.json (mutant -> {property: exit code}).
"""
import json
import os
import shutil
import subprocess
import sys
import tempfile
from concurrent.futures import ThreadPoolExecutor

HERE = os.path.dirname(os.path.dirname(os.path.abspath(__file__)))
TABLE = json.load(open(os.path.join(HERE, "tools", "mutants_table.json")))
RES = os.path.join(HERE, "tools", "mutants_results.json")


def run_one(m):
    d = tempfile.mkdtemp(prefix="mut_", dir="/tmp")
    out = {}
    try:
        subprocess.check_call(["rsync", "-a", "--exclude", ".git", "/repo/", d + "/"])
        p = os.path.join(d, m["file"])
        s = open(p).read()
        cnt = s.count(m["old"])
        want = m.get("count", 1)
        if cnt < 1 or (want != "any" and cnt != want):
            return m["name"], {"error": f"pattern occurs {cnt} times, expected {want}"}
        if "nth" in m:
            parts = s.split(m["old"])
            n = m["nth"]
            s = m["old"].join(parts[: n + 1]) + m["new"] + m["old"].join(parts[n + 1 :])
        else:
            s = s.replace(m["old"], m["new"])
        open(p, "w").write(s)
        for pid in m["props"]:
            env = dict(os.environ, VERIF_REPO=d, VERIF_EVIDENCE_DIR=os.path.join(d, "_evidence"), VERIF_REPLAY_DIR=os.path.join(d, "_replays"))
            sub = ["--only", m["only"]] if m.get("only") else []
            r = subprocess.run([os.path.join(HERE, "check"), pid, "--tier", "quick"] + sub, env=env, capture_output=True, text=True)
            lines = [l for l in r.stdout.splitlines() if "violation bucket" in l]
            out[pid] = {"exit": r.returncode, "buckets": [l.split("bucket=")[1].split(" ")[0] for l in lines][:6]}
            if r.returncode == 2:
                out[pid]["tail"] = (r.stdout + r.stderr)[-1500:]
    finally:
        shutil.rmtree(d, ignore_errors=True)
    return m["name"], out


def main():
    sel = sys.argv[1:]
    ms = [m for m in TABLE if not sel or m["name"] in sel or any(p in sel for p in m["props"])]
    results = json.load(open(RES)) if os.path.exists(RES) else {}
    with ThreadPoolExecutor(max_workers=int(os.environ.get("MUT_JOBS", "3"))) as ex:
        for name, out in ex.map(run_one, ms):
            results[name] = out
            caught = all(isinstance(v, dict) and v.get("exit") == 1 for v in out.values()) if "error" not in out else False
            print(("CAUGHT " if caught else "MISSED ") + name, json.dumps(out)[:400], flush=True)
    json.dump(results, open(RES, "w"), indent=1, sort_keys=True)


if __name__ == "__main__":
    main()
