#!/venv/bin/python
"""tools/seed_prompt.py C01 [suffix] [extra hint...] -> creates scratch worktree /tmp/wt_<id><suffix> and /tmp/seedprompts/<id><suffix>.txt"""
import json, os, subprocess, sys
pid = sys.argv[1]; suffix = sys.argv[2] if len(sys.argv) > 2 else ""; hint = " ".join(sys.argv[3:])
props = {json.loads(l)["id"]: json.loads(l) for l in open("/verif/properties.jsonl")}
p = props[pid]; tag = pid + suffix; wt = f"/tmp/wt_{tag}"
if not os.path.exists(wt):
    subprocess.check_call(["git", "-C", "/repo", "worktree", "add", "--detach", wt, "HEAD"], stdout=subprocess.DEVNULL, stderr=subprocess.DEVNULL)
txt = f"""You are helping test a verification suite by *seeding a realistic bug*. Work ONLY inside the git worktree {wt} (a scratch checkout of the Python library ankit76/ad_afqmc: JAX implementation of AFQMC quantum Monte Carlo). Do not touch /repo or /verif, and do not read anything under /verif.

The property that your change must BREAK:

  Title: {p['title']}
  Statement: {p['statement']}
  Domain: {p['quantifier']['text']}

Task: make ONE small source change under {wt}/ad_afqmc/ (the kind of slip a maintainer could plausibly introduce in a refactor or an "optimisation") such that
  (a) the package still imports and the existing test suite still passes exactly as before: run `cd {wt} && /venv/bin/python -m pytest -q -p no:cacheprovider --timeout=900 -n 4 tests/` before and after (all 41 tests pass at baseline);
  (b) the property above is violated, but NOT in a way that ordinary use would expose at once: it should need something specific to manifest - an unusual input (a particular size, electron count, open shell, sign pattern, boundary value, degenerate or tied input), a particular option combination, a multi-step sequence of calls, or two cooperating sites that each look fine alone. Avoid changes that break the common path for every input. {hint}
IMPORTANT: never use `git stash` (the stash is shared between all worktrees of the repository and other agents work in parallel); to compare with the unmodified code use `git diff -- ad_afqmc > /tmp/mychange_{tag}.diff; git checkout -- ad_afqmc; ...; git apply /tmp/mychange_{tag}.diff`.
Then write a demonstration program {wt}/_seeded/demo.py that exits 1 (printing what is wrong) with your change applied and exits 0 on the unmodified code (compare as described above, without git stash). The demo must check the property directly (compare with an independent computation, e.g. brute-force second quantisation / exact diagonalisation / finite differences in numpy), not just compare against hard-coded numbers. Run it with `cd {wt} && PYTHONPATH={wt} /venv/bin/python _seeded/demo.py`.

Environment notes: use /venv/bin/python; the package is imported from the working directory / PYTHONPATH, it is not installed. There is no network. mpi4py imports but libmpi is missing: in any script do `from ad_afqmc import config; config.afqmc_config["use_mpi"]=False; config.setup_jax()` before importing other ad_afqmc modules. JIT compilation costs seconds per function: keep sizes tiny (norb <= 4) and the demo under ~90 s.

Deliverables (all under {wt}/_seeded/): patch.diff (output of `git diff -- ad_afqmc` in the worktree, the change left applied in the worktree too), demo.py, and meta.json with keys: property ("{pid}"), summary (what was changed), needs (what specific input/sequence/configuration is needed to manifest), files (list), tests_pass (true/false as you observed), demo_fails_with_patch (true/false), demo_passes_without_patch (true/false).
Finish with a 5-line report. Be economical: do not explore the whole repository, read only the files relevant to the property (hint: {', '.join(p['anchors']['files'])})."""
os.makedirs("/tmp/seedprompts", exist_ok=True)
open(f"/tmp/seedprompts/{tag}.txt", "w").write(txt)
print(tag, wt)
