#!/venv/bin/python
"""Regenerate MANIFEST.json from the table below + the check modules present in vlib/checks."""
import json, os, sys
HERE = os.path.dirname(os.path.dirname(os.path.abspath(__file__)))
BASELINE = "cd /repo && env -u ANKIT76_AD_AFQMC_VERIF /venv/bin/python -m pytest -ra -q -p no:cacheprovider --timeout=900 --continue-on-collection-errors"

# property -> (technique, level text, level note, design ref)
TABLE = json.load(open(os.path.join(HERE, "tools", "manifest_table.json")))
props = [json.loads(l) for l in open(os.path.join(HERE, "properties.jsonl"))]
checks, na = [], []
for p in props:
    pid = p["id"]
    have = os.path.exists(os.path.join(HERE, "vlib", "checks", pid.lower() + ".py"))
    t = TABLE.get(pid)
    if have and t and t.get("claimed", True):
        checks.append({
            "property_id": pid,
            "quick_cmd": f"./check {pid} --tier quick",
            "thorough_cmd": f"./check {pid} --tier thorough",
            "evidence_file": f"evidence/{pid}.json",
            "replay_cmd_template": f"./check {pid} --replay {{path}}",
            "engine": "vlib",
            "level_claimed": {"category": t.get("category", "exploration"), "text": t["text"], "design_ref": t.get("design_ref", f"DESIGN.md section 3, {pid}")},
            "level_note": t["note"],
            "technique": t["technique"],
        })
    else:
        na.append({"property_id": pid, "reason": (t or {}).get("na_reason", "check not built yet in this revision of /verif (planned: see DESIGN.md section 3); not claimed until it runs quietly on the unchanged tree")})
hooks_commits = [l.strip() for l in open(os.path.join(HERE, "tools", "hook_commits.txt")) if l.strip()] if os.path.exists(os.path.join(HERE, "tools", "hook_commits.txt")) else []
m = {
    "version": 1,
    "setup_cmd": "./setup.sh",
    "hooks": {
        "guard": "ANKIT76_AD_AFQMC_VERIF",
        "enable": "export ANKIT76_AD_AFQMC_VERIF=1 (set by ./check; the hooks additionally stay inert unless the harness pre-seeds the prop_data keys verif_incoherence / verif_imp_fun / verif_theta)",
        "baseline_off_cmd": BASELINE,
        "source_commits": hooks_commits,
        "add_only": True,
    },
    "engines": [{"name": "vlib", "path": "vlib/", "serves_properties": [c["property_id"] for c in checks],
                 "kind_free_text": "Hypothesis 6.168 property / stateful tests and exhaustive enumeration of small finite inner spaces, against explicit oracles: an exact Fock-space (second-quantised) reference model written from scratch, differential pairs of implementations, metamorphic relations and history invariants; minimal failing cases are written as JSON replay files"}],
    "checks": checks,
    "not_applicable": na,
    "notes": "All checks run /venv/bin/python against /repo's working tree (PYTHONPATH), VERIF_SEED selects the Hypothesis seed, exit 0/1/2 = held / violation / harness error. known_findings.json lists recorded and fixed defects.",
}
json.dump(m, open(os.path.join(HERE, "MANIFEST.json"), "w"), indent=1)
print("claimed:", [c["property_id"] for c in checks]); print("not_applicable:", [n["property_id"] for n in na])
