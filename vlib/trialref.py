"""|psi_T> of every trial kind as a Fock vector, built operator by operator from the same wave_data the
library consumes (never through a determinant / Wick formula).

Conventions (standard CI / CC normal-ordered excitation operators on the reference |Phi0>):
  cisd/CISD/CISD_THC : (1 + sum c1_ia E_ai + 1/2 sum c2_iajb E_ai E_bj)|Phi0>,  E_ai = sum_s a+_as a_is,
                       reference = first nocc orbitals doubly occupied, virtual index a -> orbital nocc + a
  ucisd/UCISD        : (1 + sum c1A a+a + sum c1B b+b + 1/4 sum c2AA a+a a+a + 1/4 sum c2BB ... + sum c2AB a+_a a_i b+_b b_j)|Phi0>,
                       beta operators in the orbital basis mo_coeff[1], alpha in the working basis
  GCISD              : the same with spin orbitals mo_coeff (2norb x 2norb), 1/4 convention
  multislater        : sum_i c_i |D_i>,  |D> = (alpha string ascending)(beta string ascending)|0>
"""
import itertools

import numpy as np

from .fockref import fock


def rhf_state(norb, wave_data):
    C = np.asarray(wave_data["mo_coeff"])
    return fock(norb).slater(C, C)


def uhf_state(norb, wave_data):
    return fock(norb).slater(np.asarray(wave_data["mo_coeff"][0]), np.asarray(wave_data["mo_coeff"][1]))


def ghf_state(norb, nelec, wave_data):
    C = np.asarray(wave_data["mo_coeff"])[:, : nelec[0] + nelec[1]]
    return fock(norb).product_state(C)


def noci_state(norb, nelec, wave_data):
    F = fock(norb)
    ci, dets = wave_data["ci_coeffs_dets"]
    ci = np.asarray(ci)
    up, dn = np.asarray(dets[0]), np.asarray(dets[1])
    psi = np.zeros(F.dim, complex)
    for k in range(len(ci)):
        psi = psi + ci[k] * F.slater(up[k][:, : nelec[0]], dn[k][:, : nelec[1]])
    return psi


def multislater_state(norb, state):
    """state: dict {(occ_a tuple, occ_b tuple): coeff}."""
    F = fock(norb)
    psi = np.zeros(F.dim, complex)
    for (a, b), c in state.items():
        psi = psi + c * F.det_state(a, b)
    return psi


def cisd_state(norb, nocc, ci1, ci2):
    F = fock(norb)
    n = norb
    nv = norb - nocc
    ci1 = np.asarray(ci1)
    ci2 = np.asarray(ci2)
    phi0 = F.slater(np.eye(norb)[:, :nocc], np.eye(norb)[:, :nocc])
    Eai = {(a, i): F.E(a, i) + F.E(n + a, n + i) for a in range(nocc, norb) for i in range(nocc)}
    psi = phi0.copy()
    for i in range(nocc):
        for a in range(nv):
            if ci1[i, a] != 0:
                psi = psi + ci1[i, a] * (Eai[(nocc + a, i)] @ phi0)
    for i, a, j, b in itertools.product(range(nocc), range(nv), range(nocc), range(nv)):
        if ci2[i, a, j, b] != 0:
            psi = psi + 0.5 * ci2[i, a, j, b] * (Eai[(nocc + a, i)] @ (Eai[(nocc + b, j)] @ phi0))
    return psi


def thc_ci2(wave_data):
    Xo, Xv, V = np.asarray(wave_data["Xocc"]), np.asarray(wave_data["Xvirt"]), np.asarray(wave_data["VKL"])
    return np.einsum("Pi,Pa,PQ,Qj,Qb->iajb", Xo, Xv, V, Xo, Xv)


def ucisd_state(norb, nelec, wave_data):
    F = fock(norb)
    n = norb
    na, nb = nelec
    nva, nvb = norb - na, norb - nb
    c1a, c1b = np.asarray(wave_data["ci1A"]), np.asarray(wave_data["ci1B"])
    c2aa, c2bb, c2ab = np.asarray(wave_data["ci2AA"]), np.asarray(wave_data["ci2BB"]), np.asarray(wave_data["ci2AB"])
    moB = np.asarray(wave_data["mo_coeff"][1])
    bcre = [F.orb_cre(np.concatenate([np.zeros(n), moB[:, q]])) for q in range(norb)]
    bann = [F.orb_ann(np.concatenate([np.zeros(n), moB[:, q]])) for q in range(norb)]
    phi0 = F.slater(np.eye(norb)[:, :na], moB[:, :nb])
    A = lambda a, i: F.E(a, i)
    B = lambda a, i: bcre[a] @ bann[i]
    psi = phi0.copy()
    for i in range(na):
        for a in range(nva):
            psi = psi + c1a[i, a] * (A(na + a, i) @ phi0)
    for i in range(nb):
        for a in range(nvb):
            psi = psi + c1b[i, a] * (B(nb + a, i) @ phi0)
    for i, a, j, b in itertools.product(range(na), range(nva), range(na), range(nva)):
        if c2aa[i, a, j, b] != 0:
            psi = psi + 0.25 * c2aa[i, a, j, b] * (A(na + a, i) @ (A(na + b, j) @ phi0))
    for i, a, j, b in itertools.product(range(nb), range(nvb), range(nb), range(nvb)):
        if c2bb[i, a, j, b] != 0:
            psi = psi + 0.25 * c2bb[i, a, j, b] * (B(nb + a, i) @ (B(nb + b, j) @ phi0))
    for i, a, j, b in itertools.product(range(na), range(nva), range(nb), range(nvb)):
        if c2ab[i, a, j, b] != 0:
            psi = psi + c2ab[i, a, j, b] * (A(na + a, i) @ (B(nb + b, j) @ phi0))
    return psi


def gcisd_state(norb, nelec, wave_data):
    F = fock(norb)
    N = nelec[0] + nelec[1]
    M = 2 * norb
    nv = M - N
    C = np.asarray(wave_data["mo_coeff"])
    g1, g2 = np.asarray(wave_data["ci1"]), np.asarray(wave_data["ci2"])
    gcre = [F.orb_cre(C[:, q]) for q in range(M)]
    gann = [F.orb_ann(C[:, q]) for q in range(M)]
    phi0 = F.product_state(C[:, :N])
    G = lambda a, i: gcre[a] @ gann[i]
    psi = phi0.copy()
    for i in range(N):
        for a in range(nv):
            if g1[i, a] != 0:
                psi = psi + g1[i, a] * (G(N + a, i) @ phi0)
    for i, a, j, b in itertools.product(range(N), range(nv), range(N), range(nv)):
        if g2[i, a, j, b] != 0:
            psi = psi + 0.25 * g2[i, a, j, b] * (G(N + a, i) @ (G(N + b, j) @ phi0))
    return psi


def trial_state(kind, norb, nelec, wave_data, extra=None):
    """Fock vector of the trial of the given kind."""
    if kind == "rhf":
        return rhf_state(norb, wave_data)
    if kind in ("uhf", "uhf_cpmc"):
        return uhf_state(norb, wave_data)
    if kind in ("ghf", "ghf_cpmc"):
        return ghf_state(norb, nelec, wave_data)
    if kind == "noci":
        return noci_state(norb, nelec, wave_data)
    if kind == "multislater":
        return multislater_state(norb, extra["state"])
    if kind in ("cisd", "cisd_faster", "CISD"):
        return cisd_state(norb, nelec[0], wave_data["ci1"], wave_data["ci2"])
    if kind == "CISD_THC":
        return cisd_state(norb, nelec[0], wave_data["ci1"], thc_ci2(wave_data))
    if kind in ("ucisd", "UCISD"):
        return ucisd_state(norb, nelec, wave_data)
    if kind == "GCISD":
        return gcisd_state(norb, nelec, wave_data)
    raise ValueError(kind)
