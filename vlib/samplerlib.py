"""Shared set-up for the sampler / driver checks (C06, C08, C12, C14): small problems with a converged mean-field trial,
entry-point wrappers exactly as driver.afqmc builds them, tangent dictionaries as the driver builds them."""
import numpy as np
from hypothesis import strategies as st

from . import gens

SHAPES = {"rhf": [(3, (1, 1)), (3, (2, 2)), (4, (2, 2))], "uhf": [(3, (2, 1)), (3, (1, 1)), (4, (2, 2)), (4, (2, 1))]}


@st.composite
def problem(draw, walker_types=("rhf", "uhf"), shapes=None, n_walkers=(2, 4, 6), closed_shell_only=False, nchol=(1, 2), chol_scale=(0.3, 0.6), dts=(0.01, 0.005, 0.05)):
    wt = draw(st.sampled_from(list(walker_types)))
    tab = (shapes or SHAPES)[wt]
    if closed_shell_only:
        tab = [s for s in tab if s[1][0] == s[1][1]]
    norb, nelec = draw(st.sampled_from(tab))
    a = draw(gens.real((norb, norb)))
    h1 = (a + a.T) / 2 + np.diag(np.arange(norb) * draw(st.sampled_from([0.5, 1.0, 2.0])))  # a gap keeps the SCF well conditioned
    ng = draw(st.sampled_from(list(nchol)))
    c = draw(gens.real((ng, norb, norb))) * draw(st.sampled_from(list(chol_scale)))
    chol = (c + c.transpose(0, 2, 1)) / 2
    nw = draw(st.sampled_from(list(n_walkers)))
    nb = draw(st.sampled_from([d for d in range(1, nw + 1) if nw % d == 0]))
    return {
        "walker_type": wt, "norb": norb, "nelec": list(nelec), "h0": draw(st.sampled_from([0.0, 0.5])), "h1": h1, "chol": chol,
        "n_walkers": nw, "n_batch": nb, "dt": draw(st.sampled_from(list(dts))), "seed": draw(st.integers(0, 2**31 - 1)),
    }


class Problem:
    def __init__(self, case, n_batch=None, walker_type=None, spin_dependent_h1=None):
        import jax.numpy as jnp

        from ad_afqmc import hamiltonian as hmod
        from ad_afqmc import propagation, wavefunctions

        self.case = case
        self.norb = int(case["norb"])
        self.nelec = (int(case["nelec"][0]), int(case["nelec"][1]))
        self.wt = walker_type or case["walker_type"]
        self.nw = int(case["n_walkers"])
        self.nb = int(case["n_batch"]) if n_batch is None else int(n_batch)
        self.dt = float(case["dt"])
        h1 = np.asarray(case["h1"], float)
        chol = np.asarray(case["chol"], float)
        self.h1, self.chol = h1, chol
        self.ham = hmod.hamiltonian(self.norb)
        h1s = np.stack([h1, h1]) if spin_dependent_h1 is None else np.asarray(spin_dependent_h1, float)
        self.ham_data0 = {"h0": float(case["h0"]), "h1": jnp.asarray(h1s), "chol": jnp.asarray(chol.reshape(-1, self.norb * self.norb)), "ene0": 0.0}
        e, v = np.linalg.eigh(h1)
        if self.wt == "rhf":
            self.trial = wavefunctions.rhf(self.norb, self.nelec, n_batch=self.nb)
            wd = {"mo_coeff": jnp.asarray(v[:, : self.nelec[0]])}
            self.prop = propagation.propagator_restricted(dt=self.dt, n_walkers=self.nw, n_batch=self.nb)
        else:
            self.trial = wavefunctions.uhf(self.norb, self.nelec, n_batch=self.nb)
            wd = {"mo_coeff": [jnp.asarray(v[:, : self.nelec[0]]), jnp.asarray(v[:, : self.nelec[1]])]}
            self.prop = propagation.propagator_unrestricted(dt=self.dt, n_walkers=self.nw, n_batch=self.nb)
        self.wave_data, self.converged = self._converge(wd)
        self.wave_data["rdm1"] = jnp.asarray(np.asarray(self.trial.get_rdm1({k: v_ for k, v_ in self.wave_data.items() if k != "rdm1"})))

    def _proj(self, wd):
        mo = wd["mo_coeff"]
        if isinstance(mo, (list, tuple)):
            return [np.asarray(m) @ np.asarray(m).T for m in mo]
        return [np.asarray(mo) @ np.asarray(mo).T]

    def _converge(self, wd):
        p = self._proj(wd)
        for _ in range(25):
            wd = self.trial.optimize(dict(self.ham_data0), dict(wd))
            q = self._proj(wd)
            d = max(float(np.max(np.abs(a - b))) for a, b in zip(p, q))
            p = q
            if d < 1e-13:
                return dict(wd), True
        return dict(wd), False

    def ham_data(self):
        hd = self.ham.build_measurement_intermediates(dict(self.ham_data0), self.trial, self.wave_data)
        return self.ham.build_propagation_intermediates(hd, self.prop, self.trial, self.wave_data)

    def prop_data(self, hd, seed=None, perturb=0.0):
        import jax
        import jax.numpy as jnp

        pd = self.prop.init_prop_data(self.trial, self.wave_data, hd, None)
        key = jax.random.PRNGKey(int(self.case["seed"]) if seed is None else int(seed))
        if perturb:
            k1, k2, key = jax.random.split(key, 3)
            if self.wt == "rhf":
                w = pd["walkers"]
                pd["walkers"] = w + perturb * (jax.random.normal(k1, w.shape) + 1j * jax.random.normal(k2, w.shape))
            else:
                ws = pd["walkers"]
                pd["walkers"] = [
                    ws[0] + perturb * (jax.random.normal(k1, ws[0].shape) + 1j * jax.random.normal(k2, ws[0].shape)),
                    ws[1] + perturb * (jax.random.normal(jax.random.fold_in(k1, 1), ws[1].shape) + 1j * jax.random.normal(jax.random.fold_in(k2, 1), ws[1].shape)),
                ]
            pd = self.prop.orthonormalize_walkers(pd)
            # energies / overlaps / shift of the perturbed population, exactly as a user-supplied init_walkers would get them
            pd = self.prop.init_prop_data(self.trial, self.wave_data, hd, pd["walkers"])
        pd["key"] = key
        return pd


def entry_point(name, sampler, P: Problem, hd):
    """f(coupling, observable_op, prop_data) -> (energy, prop_data), wired as in driver.afqmc."""
    fn = {
        "ad": sampler.propagate_phaseless_ad,
        "ad_nosr": sampler.propagate_phaseless_ad_nosr,
        "ad_norot": sampler.propagate_phaseless_ad_norot,
        "ad_nosr_norot": sampler.propagate_phaseless_ad_nosr_norot,
        "ad_1": sampler.propagate_phaseless_ad_1,
    }[name]
    return lambda x, y, z: fn(P.ham, hd, x, y, P.prop, z, P.trial, P.wave_data)


def option_entry(orbital_rotation, do_sr):
    if not orbital_rotation and not do_sr:
        return "ad_nosr_norot"
    if not orbital_rotation:
        return "ad_norot"
    if not do_sr:
        return "ad_nosr"
    return "ad"


def tangent_like(prop_data):
    """Zero tangents exactly as driver.afqmc builds them."""
    from jax import dtypes

    out = {}
    for x in prop_data:
        if isinstance(prop_data[x], list):
            out[x] = [np.zeros_like(y) for y in prop_data[x]]
        elif prop_data[x].dtype == "uint32":
            out[x] = np.zeros(prop_data[x].shape, dtype=dtypes.float0)
        else:
            out[x] = np.zeros_like(prop_data[x])
    return out


def copy_pd(pd):
    return {k: (list(v) if isinstance(v, list) else v) for k, v in pd.items()}
