"""Command line:  python -m vlib.runner C07 --tier quick [--only sub] | --replay FILE"""
import argparse
import os
import sys
import traceback


def main(argv=None):
    ap = argparse.ArgumentParser()
    ap.add_argument("property")
    ap.add_argument("--tier", default=os.environ.get("VERIF_TIER", "quick"), choices=["quick", "thorough"])
    ap.add_argument("--replay")
    ap.add_argument("--only")
    ap.add_argument("--procs", type=int, default=16)
    a = ap.parse_args(argv)
    pid = a.property.upper()
    modname = f"vlib.checks.{pid.lower()}"
    try:
        seed = int(os.environ.get("VERIF_SEED", "1"))
    except ValueError:
        seed = 1
    try:
        from vlib import harness

        if a.replay:
            return harness.replay(modname, a.replay)
        return harness.run_property(modname, a.tier, seed, a.only, a.procs)
    except SystemExit:
        raise
    except BaseException:
        traceback.print_exc()
        print(f"HARNESS-ERROR property={pid}")
        return 2


if __name__ == "__main__":
    sys.exit(main())
