"""C07 — stochastic reconfiguration is an unbiased, weight-conserving comb.

Oracle: a reference comb in exact rational arithmetic on |w| (fractions.Fraction).  The library
works in float64, so a comb tooth that lies within TAU (relative to the total weight) of a
break-point of the cumulative weights may legitimately fall on either side: such teeth are
"ambiguous" and may go to either alive neighbour; every other tooth must be assigned exactly as the
rational reference says.  Everything else (copies only, paired spin blocks, equal new weights, total
weight conserved, zero-weight walkers never selected, index in range) is required for every case.
"""
import math
from fractions import Fraction

import numpy as np

from vlib import env

env.setup()
import jax
import jax.numpy as jnp
from hypothesis import strategies as st

from ad_afqmc import config, propagation, sr
from vlib import fakempi
from vlib.harness import SubCheck

PROPERTY = "C07"
LEVEL = "exploration"
RULE = (
    "Hypothesis draws population size N in 1..12, weights (zeros, negative signs, magnitudes 1e-8..1e8, ties), a comb offset on the "
    "float grid k*2^-52 biased towards 0, 1 and the exact break-points frac(N*C_i/W), the container (restricted array / unrestricted "
    "[up,dn] with different tags) and, for the MPI class, R in 1..4 ranks and a schedule (list of choices among the ranks that can "
    "complete a collective). Walkers are index-tagged so copies are identifiable. Non-trivial = at least one zero weight and at "
    "least two distinct non-zero magnitudes (comb cases), additionally R >= 2 for the MPI class; distinct by SHA-1 of the inputs. "
    "The expectation over the offset is integrated exactly: the implementation is evaluated at the midpoint of every interval "
    "between consecutive break-points and sum(length*count_i) is compared with N|w_i|/W."
)
ASSUMPTIONS = [
    "float64 rounding tolerance: a tooth within 64 ulp (relative to the total weight) of a cumulative-weight break-point may be assigned to either alive neighbour",
    "real MPI is not available in the sandbox (libmpi missing): the multi-rank clause is decided against vlib/fakempi.py, a threaded communicator with mpi4py buffer semantics whose interleaving is generated",
    "jax.random.uniform(float64) produces values k*2^-52, k>=0; offset 0 is outside the property's domain (0,1) and is not generated",
]

TAU = 64 * 2.0**-52


# ---------------------------------------------------------------------------------------------
def reference(absw, zeta):
    """Exact comb. Returns (W, C, teeth z_k as Fractions, index per tooth or None if outside)."""
    N = len(absw)
    w = [Fraction(float(x)) for x in absw]
    C = []
    acc = Fraction(0)
    for x in w:
        acc += x
        C.append(acc)
    W = C[-1]
    z = [W * (Fraction(k) + Fraction(float(zeta))) / N for k in range(N)]
    return W, C, z


def allowed_indices(absw, zeta):
    """For every tooth the set of walker indices the float implementation may pick."""
    N = len(absw)
    W, C, z = reference(absw, zeta)
    alive = [i for i in range(N) if absw[i] != 0]
    out = []
    tau = Fraction(TAU) * W
    for k in range(N):
        # exact owner: first i with C_i >= z_k  (C_{i-1} < z <= C_i)
        owner = next(i for i in range(N) if C[i] >= z[k])
        s = {owner}
        # ambiguity with neighbours
        prev_alive = [i for i in alive if i < owner]
        next_alive = [i for i in alive if i > owner]
        lower = C[owner - 1] if owner > 0 else Fraction(0)
        if z[k] - lower <= tau and prev_alive:
            s.add(prev_alive[-1])
        if C[owner] - z[k] <= tau and next_alive:
            s.add(next_alive[0])
        out.append(s)
    return out, W


def tagged_walkers(N, unrestricted, norb=2, nup=2, ndn=1):
    if unrestricted:
        up = np.stack([np.full((norb, nup), float(i + 1)) + 1j * (i + 1) for i in range(N)])
        dn = np.stack([np.full((norb, ndn), -float(i + 1)) - 0.5j * (i + 1) for i in range(N)])
        return [up, dn]
    return np.stack([np.full((norb, nup), float(i + 1)) + 1j * (i + 1) for i in range(N)])


def tags_of(walkers, unrestricted, case, ctx, bucket):
    """Recover the source index of each output walker; checks that outputs are exact copies and spins paired."""
    if unrestricted:
        up, dn = np.asarray(walkers[0]), np.asarray(walkers[1])
        tu = up[:, 0, 0].real
        td = -dn[:, 0, 0].real
        for i in range(up.shape[0]):
            if not (np.all(up[i] == tu[i] + 1j * tu[i]) and np.all(dn[i] == -td[i] - 0.5j * td[i])):
                ctx.fail(bucket + ":not-a-copy", case, f"output walker {i} is not a copy of an input walker: up={up[i].ravel()[:2]} dn={dn[i].ravel()[:2]}")
                return None
        if not np.array_equal(tu, td):
            ctx.fail(bucket + ":spin-blocks-unpaired", case, f"up tags {tu.tolist()} != down tags {td.tolist()}")
            return None
        t = tu
    else:
        w = np.asarray(walkers)
        t = w[:, 0, 0].real
        for i in range(w.shape[0]):
            if not np.all(w[i] == t[i] + 1j * t[i]):
                ctx.fail(bucket + ":not-a-copy", case, f"output walker {i} is not a copy of an input walker: {w[i].ravel()[:2]}")
                return None
    idx = np.rint(t).astype(int) - 1
    if np.any(idx < 0) or np.any(idx >= len(t)) or np.any(np.abs(t - np.rint(t)) > 0):
        ctx.fail(bucket + ":not-a-copy", case, f"output tags {t.tolist()} are not input tags")
        return None
    return idx


def call_impl(impl, walkers, weights, zeta, unrestricted):
    w = jnp.asarray(weights)
    if unrestricted:
        wk = [jnp.asarray(walkers[0]), jnp.asarray(walkers[1])]
    else:
        wk = jnp.asarray(walkers)
    if impl == "jit":
        f = sr.stochastic_reconfiguration_uhf if unrestricted else sr.stochastic_reconfiguration
        return f(wk, w, zeta)
    if impl == "np":
        if unrestricted:
            raise NotImplementedError
        return sr.stochastic_reconfiguration_np(wk, w, zeta)
    if impl == "mpi1":
        f = sr.stochastic_reconfiguration_mpi_uhf if unrestricted else sr.stochastic_reconfiguration_mpi
        return f(wk, w, zeta, config.not_a_comm())
    raise ValueError(impl)


def validate_output(ctx, case, bucket, weights, zeta, unrestricted, out_walkers, out_weights):
    """All per-offset clauses of the property for one implementation's output. Returns chosen indices."""
    N = len(weights)
    absw = np.abs(np.asarray(weights, float))
    idx = tags_of(out_walkers, unrestricted, case, ctx, bucket)
    if idx is None:
        return None
    allowed, W = allowed_indices(absw, zeta)
    Wf = float(W)
    ow = np.asarray(out_weights)
    if ow.shape != (N,) or np.iscomplexobj(ow):
        ctx.fail(bucket + ":weights-shape", case, f"new weights shape/dtype {ow.shape} {ow.dtype}")
        return None
    if not np.all(np.abs(ow - Wf / N) <= 1e-12 * Wf / N + 0.0):
        ctx.fail(bucket + ":weights-not-equal", case, f"new weights {ow.tolist()} != W/N = {Wf / N}")
    if not abs(float(np.sum(ow)) - Wf) <= 1e-12 * Wf:
        ctx.fail(bucket + ":weight-not-conserved", case, f"sum new weights {float(np.sum(ow))!r} vs total |w| {Wf!r}")
    zero_sel = [int(i) for i in idx if absw[i] == 0.0]
    ambiguous = sum(1 for s in allowed if len(s) > 1)
    if ambiguous:
        ctx.count("teeth-ambiguous-by-rounding", ambiguous)
    endcls = ":offset-near-1" if zeta >= 1 - 2.0**-40 else ""
    if zero_sel:
        ctx.fail(bucket + ":zero-weight-selected" + endcls, case, f"zero-weight walkers {zero_sel} were selected (indices {idx.tolist()})")
        return idx
    for k in range(N):
        if int(idx[k]) not in allowed[k]:
            ctx.fail(bucket + ":wrong-walker" + endcls, case, f"tooth {k}: walker {int(idx[k])} chosen, exact comb allows {sorted(allowed[k])} (indices {idx.tolist()})")
            return idx
    # floor / ceil clause, on counts (exact unless a tooth was ambiguous)
    counts = np.bincount(idx, minlength=N)
    for i in range(N):
        x = Fraction(N) * Fraction(float(absw[i])) / W
        lo, hi = math.floor(x), math.ceil(x)
        slack = 1 if any(i in s and len(s) > 1 for s in allowed) else 0
        if not (lo - slack <= counts[i] <= hi + slack):
            ctx.fail(bucket + ":count-not-floor-ceil", case, f"walker {i}: selected {int(counts[i])} times, N|w|/W = {float(x):.6g}")
    return idx


# ---------------------------------------------------------------------------------------------
def weights_strategy(nmin=1, nmax=12):
    mag = st.one_of(
        st.floats(0.01, 10.0),
        st.builds(lambda m, e: m * 10.0**e, st.floats(0.1, 1.0), st.integers(-8, 8)),
        st.sampled_from([1.0, 0.5, 2.0, 1.0 / 3.0]),
    )
    elem = st.one_of(st.just(0.0), mag, mag.map(lambda x: -x), st.sampled_from([1.0, 1.0, -1.0]))
    return st.lists(elem, min_size=nmin, max_size=nmax).filter(lambda w: any(x != 0 for x in w))


GRID = 2.0**-52


@st.composite
def zeta_strategy(draw, weights):
    N = len(weights)
    absw = [abs(float(x)) for x in weights]
    kind = draw(st.sampled_from(["uniform", "uniform", "low", "high", "break", "break"]))
    if kind == "uniform":
        k = draw(st.integers(1, 2**52 - 1))
        return k * GRID
    if kind == "low":
        return draw(st.integers(1, 8)) * GRID * draw(st.sampled_from([1, 1, 1, 2**10, 2**30]))
    if kind == "high":
        return 1.0 - draw(st.integers(1, 8)) * GRID * draw(st.sampled_from([1, 1, 1, 2**10, 2**30]))
    # break-point of the counts: frac(N*C_i/W)
    W, C, _ = reference(absw, 0.5)
    i = draw(st.integers(0, N - 1))
    b = Fraction(N) * C[i] / W
    b = float(b - math.floor(b))
    off = draw(st.sampled_from([0, 1, -1, 2, -2, 8, -8, 2**20, -(2**20)]))
    z = (round(b / GRID) + off) * GRID
    if not (0.0 < z < 1.0):
        z = 0.5
    return z


@st.composite
def comb_case(draw, tier="quick"):
    weights = draw(weights_strategy())
    zeta = draw(zeta_strategy(weights))
    unrestricted = draw(st.booleans())
    return {"weights": weights, "zeta": zeta, "unrestricted": unrestricted}


@st.composite
def endpoint_case(draw, tier="quick"):
    """Offsets within a few grid points of 0 or 1 (reachable by jax.random.uniform), populations with a dead tail/head."""
    weights = draw(weights_strategy(nmin=1, nmax=10))
    pad = draw(st.integers(0, 2))
    weights = [0.0] * draw(st.integers(0, 1)) + weights + [0.0] * pad
    k = draw(st.integers(1, 4))
    zeta = (1.0 - k * GRID) if draw(st.booleans()) else k * GRID
    return {"weights": weights, "zeta": zeta, "unrestricted": draw(st.booleans())}


def _nontrivial(weights):
    absw = np.abs(np.asarray(weights, float))
    nz = absw[absw != 0]
    return bool(np.any(absw == 0) and len(set(nz.tolist())) >= 2)


def comb_body(ctx, case):
    weights = [float(x) for x in case["weights"]]
    zeta = float(case["zeta"])
    unres = bool(case["unrestricted"])
    N = len(weights)
    cls = ["container:" + ("unrestricted" if unres else "restricted"), f"N={N}"]
    if any(x < 0 for x in weights):
        cls.append("has-negative-weight")
    if zeta < 2.0**-40:
        cls.append("offset-near-0")
    if zeta > 1 - 2.0**-40:
        cls.append("offset-near-1")
    ctx.case(case, nontrivial=_nontrivial(weights), classes=cls)
    walkers = tagged_walkers(N, unres)
    results = {}
    for impl in ["jit", "mpi1"] + ([] if unres else ["np"]):
        wk = [np.array(walkers[0]), np.array(walkers[1])] if unres else np.array(walkers)
        bucket = f"comb:{impl}"
        try:
            ow, owt = call_impl(impl, wk, weights, zeta, unres)
        except Exception as e:
            endcls = ":offset-near-1" if zeta >= 1 - 2.0**-40 else ""
            ctx.fail(f"{bucket}:raised-{type(e).__name__}{endcls}", case, f"{impl} raised {type(e).__name__}: {e}")
            continue
        idx = validate_output(ctx, case, bucket, weights, zeta, unres, ow, owt)
        if idx is not None:
            results[impl] = (idx, np.asarray(owt))
    # differential: all implementations agree exactly
    if len(results) >= 2:
        ref_impl = sorted(results)[0]
        for impl, (idx, owt) in results.items():
            if not np.array_equal(idx, results[ref_impl][0]):
                # only a violation if no tooth was ambiguous by rounding (jit and numpy round the tooth differently)
                allowed, _ = allowed_indices(np.abs(np.asarray(weights)), zeta)
                if all(len(s) == 1 for s in allowed):
                    ctx.fail("comb:implementations-disagree", case, f"{impl} chose {idx.tolist()} but {ref_impl} chose {results[ref_impl][0].tolist()}")
            if not np.allclose(owt, results[ref_impl][1], rtol=1e-14, atol=0):
                ctx.fail("comb:implementations-disagree", case, f"{impl} weights {owt.tolist()} vs {ref_impl} {results[ref_impl][1].tolist()}")


# ---- exact integration over the offset ----------------------------------------------------------
@st.composite
def unbiased_case(draw, tier="quick"):
    weights = draw(weights_strategy(nmin=1, nmax=8))
    unrestricted = draw(st.booleans())
    impl = draw(st.sampled_from(["jit", "jit", "mpi1", "np"]))
    if unrestricted and impl == "np":
        impl = "jit"
    return {"weights": weights, "unrestricted": unrestricted, "impl": impl}


def unbiased_body(ctx, case):
    weights = [float(x) for x in case["weights"]]
    unres = bool(case["unrestricted"])
    impl = case["impl"]
    N = len(weights)
    absw = np.abs(np.asarray(weights))
    W, C, _ = reference(absw, 0.5)
    bps = sorted(set([Fraction(0), Fraction(1)] + [(Fraction(N) * c / W) - math.floor(Fraction(N) * c / W) for c in C]))
    ctx.case(case, nontrivial=_nontrivial(weights), classes=[f"impl:{impl}", f"intervals={min(len(bps) - 1, 9)}"])
    walkers = tagged_walkers(N, unres)
    acc = [Fraction(0)] * N
    skipped = Fraction(0)
    for a, b in zip(bps[:-1], bps[1:]):
        if b - a < Fraction(1, 10**9):
            skipped += b - a
            continue
        mid = float((a + b) / 2)
        wk = [np.array(walkers[0]), np.array(walkers[1])] if unres else np.array(walkers)
        try:
            ow, owt = call_impl(impl, wk, weights, mid, unres)
        except Exception as e:
            ctx.fail(f"unbiased:{impl}:raised-{type(e).__name__}", case, f"offset {mid}: {type(e).__name__}: {e}")
            return
        idx = tags_of(ow, unres, case, ctx, f"unbiased:{impl}")
        if idx is None:
            return
        cnt = np.bincount(idx, minlength=N)
        for i in range(N):
            acc[i] += (b - a) * int(cnt[i])
    for i in range(N):
        want = Fraction(N) * Fraction(float(absw[i])) / W
        err = abs(float(acc[i] - want))
        ctx.err("unbiased:|E[count]-N|w|/W|", err / max(1.0, float(want)))
        if err > 1e-9 * max(1.0, float(want)) + float(skipped) * N:
            ctx.fail(f"unbiased:{impl}:expectation", case, f"walker {i}: integral of count over offset = {float(acc[i])!r}, N|w|/W = {float(want)!r}")


# ---- multi-rank with generated schedules --------------------------------------------------------
@st.composite
def mpi_case(draw, tier="quick"):
    R = draw(st.integers(1, 4))
    n_loc = draw(st.integers(1, 4))
    weights = draw(weights_strategy(nmin=R * n_loc, nmax=R * n_loc))
    zeta = draw(zeta_strategy(weights))
    unrestricted = draw(st.booleans())
    schedule = draw(st.lists(st.integers(0, 5), min_size=0, max_size=40))
    return {"R": R, "n_loc": n_loc, "weights": weights, "zeta": zeta, "unrestricted": unrestricted, "schedule": schedule}


def mpi_body(ctx, case):
    R, n_loc = int(case["R"]), int(case["n_loc"])
    weights = [float(x) for x in case["weights"]]
    zeta = float(case["zeta"])
    unres = bool(case["unrestricted"])
    N = R * n_loc
    sched = [int(x) for x in case["schedule"]]
    ctx.case(case, nontrivial=_nontrivial(weights) and R >= 2, classes=[f"R={R}", "container:" + ("unrestricted" if unres else "restricted")] + (["schedule-nontrivial"] if any(sched) else []))
    walkers = tagged_walkers(N, unres)
    world = fakempi.World(R, sched)
    outs = [None] * R

    def make(r):
        def run():
            sl = slice(r * n_loc, (r + 1) * n_loc)
            w = jnp.asarray(weights[sl])
            if unres:
                wk = [jnp.asarray(walkers[0][sl]), jnp.asarray(walkers[1][sl])]
                outs[r] = sr.stochastic_reconfiguration_mpi_uhf(wk, w, zeta, world.comm(r))
            else:
                outs[r] = sr.stochastic_reconfiguration_mpi(jnp.asarray(walkers[sl]), w, zeta, world.comm(r))
        return run

    endcls = ":offset-near-1" if zeta >= 1 - 2.0**-40 else ""
    try:
        world.run([make(r) for r in range(R)])
    except fakempi.Deadlock as e:
        ctx.fail("mpi:deadlock", case, str(e))
        return
    except Exception as e:
        ctx.fail(f"mpi:raised-{type(e).__name__}{endcls}", case, f"{type(e).__name__}: {e}")
        return
    if unres:
        ow = [np.concatenate([np.asarray(outs[r][0][0]) for r in range(R)]), np.concatenate([np.asarray(outs[r][0][1]) for r in range(R)])]
    else:
        ow = np.concatenate([np.asarray(outs[r][0]) for r in range(R)])
    owt = np.concatenate([np.asarray(outs[r][1]) for r in range(R)])
    for r in range(R):
        if np.asarray(outs[r][1]).shape != (n_loc,):
            ctx.fail("mpi:local-shape", case, f"rank {r} got {np.asarray(outs[r][1]).shape} weights")
            return
    idx = validate_output(ctx, case, "mpi", weights, zeta, unres, ow, owt)
    if idx is None:
        return
    # serial comb on the rank-ordered concatenation
    try:
        sw, swt = call_impl("mpi1", [np.array(walkers[0]), np.array(walkers[1])] if unres else np.array(walkers), weights, zeta, unres)
    except Exception:
        return
    sidx = tags_of(sw, unres, case, ctx, "mpi:serial")
    if sidx is not None and not np.array_equal(idx, sidx):
        # the R-rank routine divides by nwalkers and then by size, the serial one by N once: a tooth within rounding of a break-point may
        # legitimately differ (both outputs were validated against the exact comb above); anything else is a disagreement
        allowed, _ = allowed_indices(np.abs(np.asarray(weights)), zeta)
        diff = [k for k in range(N) if idx[k] != sidx[k]]
        if any(len(allowed[k]) == 1 for k in diff):
            ctx.fail("mpi:differs-from-serial", case, f"R={R} ranks chose {idx.tolist()}, serial comb on the concatenation chose {sidx.tolist()}")
        else:
            ctx.count("mpi-vs-serial:differs-only-at-rounding-ambiguous-teeth")
    if not np.allclose(owt, np.asarray(swt), rtol=1e-14, atol=0):
        ctx.fail("mpi:differs-from-serial", case, f"weights {owt.tolist()} vs serial {np.asarray(swt).tolist()}")


# ---- propagator wrappers use exactly uniform(split(key)) ----------------------------------------
@st.composite
def prop_case(draw, tier="quick"):
    weights = draw(weights_strategy(nmin=2, nmax=8))
    return {"weights": weights, "seed": draw(st.integers(0, 2**31 - 1)), "unrestricted": draw(st.booleans()), "glob": draw(st.booleans())}


def prop_body(ctx, case):
    weights = [float(x) for x in case["weights"]]
    unres, glob = bool(case["unrestricted"]), bool(case["glob"])
    N = len(weights)
    ctx.case(case, nontrivial=_nontrivial(weights), classes=["prop:" + ("global" if glob else "local") + (":unrestricted" if unres else ":restricted")])
    key = jax.random.PRNGKey(int(case["seed"]))
    walkers = tagged_walkers(N, unres)
    wk = [jnp.asarray(walkers[0]), jnp.asarray(walkers[1])] if unres else jnp.asarray(walkers)
    prop = (propagation.propagator_unrestricted if unres else propagation.propagator_restricted)(n_walkers=N)
    pd = {"key": key, "walkers": wk, "weights": jnp.asarray(weights), "extra": jnp.arange(3.0)}
    k2, sub = jax.random.split(key)
    zeta = float(jax.random.uniform(sub))
    if zeta == 0.0:
        return
    try:
        out = prop.stochastic_reconfiguration_global(pd, config.not_a_comm()) if glob else prop.stochastic_reconfiguration_local(pd)
    except Exception as e:
        ctx.fail(f"prop:raised-{type(e).__name__}", case, f"{type(e).__name__}: {e}")
        return
    if not np.array_equal(np.asarray(jax.random.key_data(out["key"]) if hasattr(jax.random, "key_data") and jnp.issubdtype(out["key"].dtype, jax.dtypes.prng_key) else out["key"]), np.asarray(k2)):
        ctx.fail("prop:key-schedule", case, "prop_data['key'] after SR is not split(key)[0]")
    if not np.array_equal(np.asarray(out["extra"]), np.arange(3.0)):
        ctx.fail("prop:other-data-touched", case, "unrelated prop_data entry modified")
    validate_output(ctx, case, "prop", weights, zeta, unres, out["walkers"], out["weights"])


SUBCHECKS = [
    SubCheck("comb_single_offset", body=comb_body, strategy=comb_case, examples={"quick": 400, "thorough": 6000}, shards={"quick": 2, "thorough": 6}),
    SubCheck("comb_offset_endpoints", body=comb_body, strategy=endpoint_case, examples={"quick": 500, "thorough": 6000}, shards={"quick": 2, "thorough": 4}),
    SubCheck("unbiased_exact_integration", body=unbiased_body, strategy=unbiased_case, examples={"quick": 120, "thorough": 1500}, shards={"quick": 2, "thorough": 4}),
    SubCheck("mpi_ranks_schedules", body=mpi_body, strategy=mpi_case, examples={"quick": 150, "thorough": 2500}, shards={"quick": 2, "thorough": 4}),
    SubCheck("propagator_wrappers", body=prop_body, strategy=prop_case, examples={"quick": 60, "thorough": 600}, shards={"quick": 1, "thorough": 2}),
]
