"""C13 — orthonormalisation and initial walkers never change the represented state."""
import numpy as np

from vlib import env

env.setup()
import hypothesis
import jax.numpy as jnp
from hypothesis import strategies as st

from ad_afqmc import linalg_utils, propagation
from vlib import gens, measure
from vlib.fockref import fock, selftest as _fock_selftest
from vlib.harness import SubCheck

PROPERTY = "C13"
LEVEL = "exploration"
RULE = (
    "(a) Hypothesis draws a batch of 1..4 full-column-rank complex walkers (condition number <= 1e6 by construction: identity block + noise, "
    "column scalings 10^[-3,3]) in both containers (restricted array / unrestricted [up, dn], open shells and empty down channel included) and a "
    "trial kind with parameters and a Hamiltonian; re-orthonormalises through linalg_utils.qr_vmap(_uhf) and propagator.orthonormalize_walkers; "
    "checks Q^H Q = 1, equal column spaces (projectors), Slater(W) = (prod diag R) Slater(Q) in Fock space, overlap(W) = overlap(Q) x norm factor "
    "with the library's own trial overlap, and unchanged local energy / force bias. (b) Initial walkers from get_init_walkers for rhf/uhf/ghf/noci "
    "trials and for CI trials that carry an rdm1, closed/open shells, restricted walkers for open-shell and spin-broken densities: shape, count, "
    "orthonormal columns, |trial overlap| >= 1e-3 or an explicit ValueError; for rhf/uhf/ghf the energy of the initial walkers equals the "
    "variational energy <psi|H|psi>/<psi|psi> of the Fock model. Non-trivial: (a) non-orthonormal input with >= 2 columns in some channel, "
    "(b) open shell or spin-broken density or >= 2 walkers."
)
ASSUMPTIONS = [
    "invariance tolerances 1e-9 x cond(W) x scale; cases where the Wick reference block of Q or W is ill-conditioned (> 1e4) are skipped and counted",
    "'bounded away from zero' is read as the library's own gate: |<psi_T|init>| >= 1e-3 for normalised trial orbitals",
]


def selftest():
    _fock_selftest()


# ---- (a) re-orthonormalisation --------------------------------------------------------------------------
QR_KINDS = ["rhf", "uhf", "ghf", "noci", "multislater", "cisd", "ucisd", "UCISD"]
QR_SHAPES = {
    "rhf": [(3, (2, 2)), (4, (2, 2))],
    "uhf": [(3, (2, 1)), (4, (2, 2)), (3, (2, 0))],
    "ghf": [(3, (2, 1))],
    "noci": [(3, (2, 1))],
    "multislater": [(3, (2, 1))],
    "cisd": [(3, (1, 1)), (4, (2, 2))],
    "ucisd": [(3, (2, 1))],
    "UCISD": [(3, (2, 1))],
}


@st.composite
def qr_case(draw, tier, shard=0, nshards=1):
    kinds = measure.kinds_for_shard(QR_KINDS, shard, nshards)
    kind = draw(st.sampled_from(kinds))
    norb, nelec = draw(st.sampled_from(QR_SHAPES[kind]))
    params = draw(gens.trial_params(kind, norb, nelec))
    # the restricted container (one matrix, the down determinant is its leading columns) also serves open-shell uhf trials: there the
    # re-orthonormalisation must keep the span of the *leading* columns, i.e. be triangular
    restricted = kind in gens.RESTRICTED_ONLY or (kind in ("rhf", "uhf") and draw(st.booleans()))
    nw = draw(st.integers(1, 3))
    ws = [draw(gens.walker(norb, nelec, restricted=restricted)) for _ in range(nw)]
    ham = draw(gens.hamiltonian(norb, spin_dependent=False))
    return {"kind": kind, "norb": norb, "nelec": list(nelec), "params": params, "walkers": ws, "restricted": restricted, "ham": ham, "via": draw(st.sampled_from(["linalg", "propagator"]))}


def _proj(A):
    if A.shape[1] == 0:
        return np.zeros((A.shape[0], A.shape[0]), complex)
    q, _ = np.linalg.qr(A)
    return q @ q.conj().T


def qr_body(ctx, case):
    kind, norb, nelec = case["kind"], int(case["norb"]), (int(case["nelec"][0]), int(case["nelec"][1]))
    restricted = bool(case["restricted"])
    ws = case["walkers"]
    nw = len(ws)
    ups = np.stack([np.asarray(w["up"], complex).reshape(norb, nelec[0]) for w in ws])
    dns = np.stack([np.asarray(w["dn"], complex).reshape(norb, nelec[1]) for w in ws])
    conds = [np.linalg.cond(a) if a.shape[1] else 1.0 for a in list(ups) + list(dns)]
    if max(conds) > 1e6:
        ctx.count("rejected:walker-rank-deficient")
        hypothesis.assume(False)
    nonorth = any(np.max(np.abs(a.conj().T @ a - np.eye(a.shape[1]))) > 1e-3 for a in list(ups) + list(dns) if a.shape[1])
    ctx.case(case, nontrivial=nonorth and max(nelec) >= 2, classes=["qr:" + kind, "container:" + ("array" if restricted else "list") + (":open-shell" if nelec[0] != nelec[1] else ""), "via:" + case["via"], f"n_walkers={nw}"])
    trial, wd, extra = gens.build_trial(kind, norb, nelec, case["params"])
    H, hd = gens.build_ham(norb, case["ham"], trial, wd)
    try:
        if restricted:
            if case["via"] == "linalg":
                Q, norms = linalg_utils.qr_vmap(jnp.asarray(ups))
            else:
                pd = propagation.propagator_restricted(n_walkers=nw).orthonormalize_walkers({"walkers": jnp.asarray(ups)})
                Q, norms = pd["walkers"], linalg_utils.qr_vmap(jnp.asarray(ups))[1]
            Qu = np.asarray(Q)
            Qd = Qu[:, :, : nelec[1]]
            nf = np.asarray(norms) ** 2 if nelec[0] == nelec[1] else None
        else:
            if case["via"] == "linalg":
                Q, norms = linalg_utils.qr_vmap_uhf([jnp.asarray(ups), jnp.asarray(dns)])
            else:
                pd, norms = propagation.propagator_unrestricted(n_walkers=nw)._orthogonalize_walkers({"walkers": [jnp.asarray(ups), jnp.asarray(dns)]})
                Q = pd["walkers"]
                Q2 = propagation.propagator_unrestricted(n_walkers=nw).orthonormalize_walkers({"walkers": [jnp.asarray(ups), jnp.asarray(dns)]})["walkers"]
                if not (np.array_equal(np.asarray(Q2[0]), np.asarray(Q[0])) and np.array_equal(np.asarray(Q2[1]), np.asarray(Q[1]))):
                    ctx.fail("qr:orthonormalize_walkers-differs-from-_orthogonalize_walkers", case, "two public re-orthonormalisation routes give different walkers")
            Qu, Qd = np.asarray(Q[0]), np.asarray(Q[1])
            norms = np.asarray(norms)
            nf = norms[0] * norms[1]
    except Exception as e:
        ctx.fail(f"qr:raised-{type(e).__name__}:{'array' if restricted else 'list'}", case, f"{type(e).__name__}: {e}")
        return
    if Qu.shape != ups.shape or (not restricted and Qd.shape != dns.shape):
        ctx.fail("qr:shape", case, f"shapes {Qu.shape} {Qd.shape}")
        return
    F = fock(norb)
    for i in range(nw):
        cw = max(conds[i], conds[nw + i])
        for lab, W, Qm in (("up", ups[i], Qu[i]), ("dn", dns[i], Qd[i])):
            if W.shape[1] == 0:
                continue
            ctx.check_close("qr:not-orthonormal", case, f"Q^H Q - 1 ({lab})", Qm.conj().T @ Qm, np.eye(W.shape[1]), 1e-12, 1.0)
            ctx.check_close("qr:span-changed", case, f"projector(Q) - projector(W) ({lab})", Qm @ Qm.conj().T, _proj(W), 1e-10, cw)
        phiW, phiQ = F.slater(ups[i], dns[i]), F.slater(Qu[i], Qd[i])
        if nf is not None:
            ctx.check_close("qr:state-changed", case, "Slater(W) - normfactor * Slater(Q)", nf[i] * phiQ, phiW, 1e-10, float(np.max(np.abs(phiW))) * cw + 1e-300)
        sW = measure.Setup({"kind": kind, "norb": norb, "nelec": list(nelec), "params": case["params"], "walker": {"up": ups[i], "dn": dns[i]}, "restricted": restricted, "ham": case["ham"]})
        sQ = measure.Setup({"kind": kind, "norb": norb, "nelec": list(nelec), "params": case["params"], "walker": {"up": Qu[i], "dn": Qd[i]}, "restricted": restricted, "ham": case["ham"]})
        if max(sW.cond, sQ.cond) > 1e4 or not (sW.scale > 0 and abs(sW.ovlp_exact) >= 1e-3 * sW.scale and abs(sQ.ovlp_exact) >= 1e-3 * sQ.scale):
            ctx.count("skipped:measurement-ill-conditioned")
            continue
        try:
            oW, oQ = sW.lib_overlap(), sQ.lib_overlap()
            eW, eQ = sW.lib_energy(hd), sQ.lib_energy(hd)
            fW, fQ = sW.lib_force_bias(hd), sQ.lib_force_bias(hd)
        except Exception as e:
            ctx.fail(f"qr:measurement-raised-{type(e).__name__}:{kind}", case, f"{type(e).__name__}: {e}")
            return
        amp = max(sW.scale / abs(sW.ovlp_exact) * max(1.0, sW.cond) ** 2, sQ.scale / abs(sQ.ovlp_exact) * max(1.0, sQ.cond) ** 2) * cw
        if nf is not None:
            ctx.check_close(f"qr:overlap-relation:{kind}", case, f"overlap(W) - overlap(Q) * normfactor [{kind}]", oQ * nf[i], oW, 1e-9, sW.scale * max(1.0, sW.cond) ** 2 * cw)
        tol = 1e-6 if (kind in gens.AD_KINDS or kind in ("cisd", "ucisd")) else 1e-9
        hn = abs(float(case["ham"]["h0"])) + float(np.sum(np.abs(case["ham"]["h1"]))) + float(np.sum(np.sum(np.abs(np.asarray(case["ham"]["chol"])), axis=(1, 2)) ** 2))
        ctx.check_close(f"qr:energy-changed:{kind}", case, f"energy(W) - energy(Q) [{kind}]", eQ, eW, tol, (abs(eW) + hn) * amp)
        ln = float(np.max(np.sum(np.abs(np.asarray(case["ham"]["chol"])), axis=(1, 2))))
        ctx.check_close(f"qr:force-bias-changed:{kind}", case, f"force bias(W) - force bias(Q) [{kind}]", fQ, fW, 1e-9, (float(np.max(np.abs(fW))) + ln) * amp)
        # Green's functions of the single-determinant trials are functions of the column space only
        if kind in ("rhf", "uhf"):
            if kind == "rhf":
                gW = np.asarray(trial._calc_green(jnp.asarray(ups[i]), wd))
                gQ = np.asarray(trial._calc_green(jnp.asarray(Qu[i]), wd))
            else:
                gW = np.concatenate([np.asarray(x).ravel() for x in trial._calc_green(jnp.asarray(ups[i]), jnp.asarray(dns[i]), wd)])
                gQ = np.concatenate([np.asarray(x).ravel() for x in trial._calc_green(jnp.asarray(Qu[i]), jnp.asarray(Qd[i]), wd)])
            ctx.check_close(f"qr:green-changed:{kind}", case, f"green(W) - green(Q) [{kind}]", gQ, gW, 1e-9, (float(np.max(np.abs(gW))) + 1.0) * amp)


# ---- (b) initial walkers ---------------------------------------------------------------------------------
INIT_KINDS = ["rhf", "uhf", "ghf", "noci", "uhf-spin-broken", "cisd-with-rdm1", "uhf-neel", "uhf-rohf-like"]


@st.composite
def init_case(draw, tier, shard=0, nshards=1):
    kinds = measure.kinds_for_shard(INIT_KINDS, shard, nshards)
    kind = draw(st.sampled_from(kinds))
    nw = draw(st.integers(1, 5))
    if kind == "rhf":
        norb, nelec = draw(st.sampled_from([(2, (1, 1)), (3, (2, 2)), (4, (2, 2))]))
        params = draw(gens.trial_params("rhf", norb, nelec, True))
        restricted = draw(st.booleans())
    elif kind in ("uhf", "ghf", "noci"):
        norb, nelec = draw(st.sampled_from([(3, (2, 1)), (4, (2, 2)), (4, (3, 1)), (3, (2, 0)), (3, (1, 1))] if kind != "ghf" else [(3, (2, 1)), (3, (1, 1))]))
        params = draw(gens.trial_params(kind, norb, nelec, True))
        restricted = draw(st.booleans()) and kind == "uhf"
    elif kind == "uhf-spin-broken":
        # closed-shell electron count, down orbitals = up orbitals rotated by a generated angle (AFM-like breaking)
        norb, nelec = draw(st.sampled_from([(3, (1, 1)), (4, (2, 2)), (4, (1, 1))]))
        up = draw(gens.orbitals(norb, norb, True))
        theta = draw(st.sampled_from([0.0, 0.2, 0.8, 1.3, np.pi / 2 - 1e-3, np.pi / 2]))
        n = nelec[0]
        dn = np.cos(theta) * up[:, :n] + np.sin(theta) * up[:, n : 2 * n] if 2 * n <= norb else up[:, :n]
        params = {"mo_coeff": [up[:, :n], gens.orthonormalize(dn)]}
        restricted = True
        kind_l = "uhf"
        return {"kind": kind, "lib_kind": kind_l, "norb": norb, "nelec": list(nelec), "params": params, "n_walkers": nw, "restricted": restricted, "theta": theta, "ham": draw(gens.hamiltonian(norb, spin_dependent=False))}
    elif kind == "uhf-neel":
        # site-localised (Neel-like) determinants: up and down electrons on disjoint sites, exact zeros in the orbital overlaps
        norb, nelec = draw(st.sampled_from([(4, (2, 2)), (2, (1, 1)), (4, (1, 1)), (3, (1, 1))]))
        sites = list(draw(st.permutations(range(norb))))
        n = nelec[0]
        params = {"mo_coeff": [np.eye(norb)[:, sites[:n]], np.eye(norb)[:, sites[n : 2 * n]]]}
        return {"kind": kind, "lib_kind": "uhf", "norb": norb, "nelec": list(nelec), "params": params, "n_walkers": nw, "restricted": True, "ham": draw(gens.hamiltonian(norb, spin_dependent=False))}
    elif kind == "uhf-rohf-like":
        # down orbitals inside the span of the up orbitals (ROHF-type open shell): a restricted walker can represent the trial exactly
        norb, nelec = draw(st.sampled_from([(3, (2, 1)), (4, (3, 1)), (4, (2, 1)), (4, (3, 2))]))
        up = draw(gens.orbitals(norb, nelec[0], True))
        R = draw(gens.orthogonal(nelec[0]))
        params = {"mo_coeff": [up, up @ R[:, : nelec[1]]]}
        return {"kind": kind, "lib_kind": "uhf", "norb": norb, "nelec": list(nelec), "params": params, "n_walkers": nw, "restricted": True, "ham": draw(gens.hamiltonian(norb, spin_dependent=False))}
    else:
        norb, nelec = draw(st.sampled_from([(3, (1, 1)), (4, (2, 2))]))
        params = draw(gens.trial_params("cisd", norb, nelec))
        params["ci1"] = params["ci1"] * 0.2
        params["ci2"] = params["ci2"] * 0.2
        restricted = True
    return {"kind": kind, "lib_kind": kind.split("-")[0], "norb": norb, "nelec": list(nelec), "params": params, "n_walkers": nw, "restricted": restricted, "ham": draw(gens.hamiltonian(norb, spin_dependent=(kind in ("uhf", "ghf", "noci") and draw(st.booleans()))))}


def init_body(ctx, case):
    from vlib import trialref

    kind, lk = case["kind"], case["lib_kind"]
    norb, nelec = int(case["norb"]), (int(case["nelec"][0]), int(case["nelec"][1]))
    nw, restricted = int(case["n_walkers"]), bool(case["restricted"])
    trial, wd, extra = gens.build_trial(lk, norb, nelec, case["params"])
    if lk == "cisd":
        ref = np.eye(norb)[:, : nelec[0]]
        wd["rdm1"] = jnp.asarray(np.stack([ref @ ref.T] * 2))
    nontriv = nelec[0] != nelec[1] or kind == "uhf-spin-broken" or nw >= 2
    ctx.case(case, nontrivial=nontriv, classes=["init:" + kind, "init:restricted" if restricted else "init:unrestricted", "open-shell" if nelec[0] != nelec[1] else "closed-shell"])
    psi = trialref.trial_state(lk, norb, nelec, gens.numpy_wave_data(lk, norb, nelec, case["params"]), extra)
    pn = np.linalg.norm(psi)
    if lk == "noci" and pn < 1e-3 * float(np.sum(np.abs(np.asarray(case["params"]["ci"])))):
        ctx.count("rejected:noci-trial-numerically-zero")
        hypothesis.assume(False)
    noci_singular = False
    if lk == "noci":
        ups_, dns_ = np.asarray(case["params"]["dets_up"]), np.asarray(case["params"]["dets_dn"])
        worst = 1.0
        for a in range(len(ups_)):
            for b in range(len(ups_)):
                for A, B, n_ in ((ups_[a], ups_[b], nelec[0]), (dns_[a], dns_[b], nelec[1])):
                    if n_:
                        worst = max(worst, np.linalg.cond(A[:, :n_].T @ B[:, :n_]))
        if 1e6 < worst <= 1e12:
            ctx.count("skipped:noci-nearly-orthogonal-determinant-pair")
            return
        noci_singular = worst > 1e12
    try:
        w = trial.get_init_walkers(wd, nw, restricted=restricted)
    except ValueError as e:
        ctx.count("init:refused-with-ValueError")
        if "overlap" not in str(e).lower() and "orbitals" not in str(e).lower():
            ctx.fail(f"init:unexplained-ValueError:{kind}", case, str(e))
        return
    except Exception as e:
        ctx.fail(f"init:raised-{type(e).__name__}:{kind}:{'restricted' if restricted else 'unrestricted'}", case, f"{type(e).__name__}: {e}")
        return
    if restricted:
        W = np.asarray(w)
        if W.shape != (nw, norb, nelec[0]):
            ctx.fail(f"init:shape:{kind}:restricted", case, f"shape {W.shape}, expected {(nw, norb, nelec[0])}")
            return
        ups, dns = W, W[:, :, : nelec[1]]
    else:
        if not (isinstance(w, (list, tuple)) and len(w) == 2):
            ctx.fail(f"init:container:{kind}", case, f"unrestricted initial walkers are {type(w).__name__}")
            return
        ups, dns = np.asarray(w[0]), np.asarray(w[1])
        if ups.shape != (nw, norb, nelec[0]) or dns.shape != (nw, norb, nelec[1]):
            ctx.fail(f"init:shape:{kind}:unrestricted", case, f"shapes {ups.shape} {dns.shape}")
            return
    F = fock(norb)
    if noci_singular and not (np.all(np.isfinite(ups)) and np.all(np.isfinite(dns))):
        ctx.fail("init:noci:orthogonal-determinant-pair", case, "get_init_walkers returned NaN walkers (no error) for a NOCI trial with two mutually orthogonal determinants")
        return
    for i in range(nw):
        for lab, A in (("up", ups[i]), ("dn", dns[i])):
            if A.shape[1]:
                ctx.check_close(f"init:not-orthonormal:{kind}", case, f"init walker {lab}^H {lab} - 1", A.conj().T @ A, np.eye(A.shape[1]), 1e-10, 1.0)
        phi = F.slater(ups[i], dns[i])
        ov = abs(np.vdot(psi, phi)) / pn
        ctx.err("min |<psi_T|init>| (reported as 1 - value)", 1.0 - min(1.0, ov))
        if not ov >= 1e-3:
            ctx.fail(f"init:overlap-vanishes:{kind}:{'restricted' if restricted else 'unrestricted'}", case, f"|<psi_T|init walker {i}>| / |psi_T| = {ov:.3e} < 1e-3 and no error was raised")
            return
    # library overlap of the batch agrees with the Fock value, and single-determinant trials reproduce their variational energy
    H, hd = gens.build_ham(norb, case["ham"], trial, wd)
    jw = jnp.asarray(ups) if restricted else [jnp.asarray(ups), jnp.asarray(dns)]
    try:
        ovl = np.asarray(trial.calc_overlap(jw, wd))
        en = np.asarray(trial.calc_energy(jw, hd, wd))
    except Exception as e:
        ctx.fail(f"init:measurement-raised-{type(e).__name__}:{kind}", case, f"{type(e).__name__}: {e}")
        return
    phi0 = F.slater(ups[0], dns[0])
    ctx.check_close(f"init:library-overlap:{kind}", case, "calc_overlap(init) vs Fock", ovl[0], np.vdot(psi, phi0), 1e-9, pn)
    collinear = True
    if lk == "ghf":
        C = np.asarray(case["params"]["mo_coeff"])
        collinear = bool(np.allclose(C[:norb, nelec[0] :], 0) and np.allclose(C[norb:, : nelec[0]], 0))
        ctx.count("init:ghf-collinear" if collinear else "init:ghf-spin-mixed")
    # a UHF-type walker can reproduce a GHF trial only if the latter is collinear
    if kind == "uhf-rohf-like":
        # the restricted walker must be the trial itself: |<psi|init>| = |psi| and mixed energy = variational energy
        ov_n = abs(np.vdot(psi, phi0)) / pn
        if not ov_n >= 1 - 1e-9:
            ctx.fail("init:rohf-like-not-reproduced:restricted", case, f"down orbitals lie in the up space but the restricted initial walker has |<psi_T|init>| = {ov_n:.6f} < 1")
            return
    if lk in ("rhf", "uhf", "ghf") and collinear and (not restricted or kind == "uhf-rohf-like") and kind != "uhf-spin-broken":
        h1 = np.asarray(case["ham"]["h1"], float)
        if lk == "rhf":
            h1 = np.stack([(h1[0] + h1[1]) / 2] * 2)
        Hm = F.hamiltonian(float(case["ham"]["h0"]), h1, np.asarray(case["ham"]["chol"], float))
        evar = np.vdot(psi, Hm @ psi) / np.vdot(psi, psi)
        hn = abs(float(case["ham"]["h0"])) + float(np.sum(np.abs(h1))) + float(np.sum(np.sum(np.abs(np.asarray(case["ham"]["chol"])), axis=(1, 2)) ** 2))
        ctx.count("init:variational-energy-compared")
        ctx.check_close(f"init:variational-energy:{kind}", case, f"calc_energy(init) - <psi|H|psi>/<psi|psi> [{kind}]", en, np.full(nw, evar), 1e-9, abs(evar) + hn)


SUBCHECKS = [
    SubCheck("reorthonormalisation", body=qr_body, strategy=qr_case, examples={"quick": 30, "thorough": 400}, shards={"quick": 8, "thorough": 8}),
    SubCheck("initial_walkers", body=init_body, strategy=init_case, examples={"quick": 40, "thorough": 500}, shards={"quick": 8, "thorough": 8}),
]
