"""C20 — lattices are consistent graphs that survive construction and pytree round trips.

Finite domain, enumerated completely: chains 2..12, rectangular grids sides 2..6, triangular grids
sides 2..6 (periodic / open), cubic grids sides 2..4 (thorough: same + larger chains), all sites.
A Hypothesis sub-check draws non-default attribute values for the flatten/unflatten round trip.
"""
import dataclasses
import itertools

import numpy as np

from vlib import env

env.setup()
import jax
import jax.numpy as jnp
from hypothesis import strategies as st

from ad_afqmc import lattices
from vlib.harness import SubCheck

PROPERTY = "C20"
LEVEL = "exploration"
EXHAUSTIVE = True
RULE = (
    "Enumeration of every lattice spec in the stated finite domain (chains n=2..12; two_dimensional_grid and "
    "triangular_grid with sides 2..6, triangular with open_x in {False,True}; three_dimensional_grid sides 2..4) and of all "
    "sites of each; plus Hypothesis-drawn non-default attributes (hop_signs, coord_num, open_x) for the pytree round trip. "
    "A case is one (lattice spec, clause) evaluation; non-trivial = the lattice was constructed and has >= 2 sites with at "
    "least one side >= 3 or a non-default attribute; distinct by spec."
)
ASSUMPTIONS = [
    "jax.tree_util flatten/unflatten is what jit performs on a pytree argument (checked also by capturing the lattice seen inside a jitted function)",
    "open-boundary symmetry/degree clauses are only required for an even number of rows, as the property states",
]

KINDS = {
    "chain": lattices.one_dimensional_chain,
    "grid2d": lattices.two_dimensional_grid,
    "tri": lattices.triangular_grid,
    "grid3d": lattices.three_dimensional_grid,
}


def specs(tier):
    out = []
    nmax = 12 if tier == "quick" else 24
    for n in range(2, nmax + 1):
        out.append({"kind": "chain", "args": [n], "kw": {}})
    s2 = range(2, 7)
    for lx, ly in itertools.product(s2, s2):
        out.append({"kind": "grid2d", "args": [lx, ly], "kw": {}})
    for lx, ly, o in itertools.product(s2, s2, (False, True)):
        out.append({"kind": "tri", "args": [lx, ly], "kw": {"open_x": o}})
    s3 = range(2, 5) if tier == "quick" else range(2, 6)
    for lx, ly, lz in itertools.product(s3, s3, s3):
        out.append({"kind": "grid3d", "args": [lx, ly, lz], "kw": {}})
    return out


def _tag(spec):
    k, a = spec["kind"], list(spec["args"])
    if k == "chain":
        return "chain:" + ("n=2" if a[0] == 2 else "n>=3")
    if k == "grid2d":
        return "grid2d:" + ",".join(f"l_{n}{'=2' if v == 2 else '>=3'}" for n, v in zip("xy", a))
    if k == "tri":
        return "tri:" + ("open" if spec["kw"].get("open_x") else "periodic")
    return "grid3d"


def build(spec):
    kw = dict(spec.get("kw", {}))
    for k in ("hop_signs",):
        if k in kw and isinstance(kw[k], list):
            kw[k] = tuple(kw[k])
    return KINDS[spec["kind"]](*[int(a) for a in spec["args"]], **kw)


def _adjacency(lat, spec):
    if hasattr(lat, "create_adjacency_matrix"):
        return np.asarray(lat.create_adjacency_matrix())
    n = lat.n_sites
    h = np.zeros((n, n), dtype=int)
    for s in lat.sites:
        i = int(lat.get_site_num(s))
        for nb in np.asarray(lat.get_nearest_neighbors(s)):
            h[i, int(lat.get_site_num(tuple(int(x) for x in nb)))] = 1
    return h


def _attrs(lat):
    out = {}
    for f in dataclasses.fields(lat):
        v = getattr(lat, f.name)
        out[f.name] = v
    return out


def _same(a, b):
    try:
        if isinstance(a, (tuple, list)) and isinstance(b, (tuple, list)):
            return len(a) == len(b) and all(_same(x, y) for x, y in zip(a, b))
        return type(a) == type(b) and bool(a == b) or (isinstance(a, (int, float)) and isinstance(b, (int, float)) and not isinstance(a, bool) and not isinstance(b, bool) and a == b)
    except Exception:
        return False


def check_lattice(ctx, spec):
    tag = _tag(spec)
    sides = [int(a) for a in spec["args"]]
    nondefault = bool(set(spec.get("kw", {})) - {"open_x"}) or bool(spec.get("kw", {}).get("open_x"))
    # --- 1. construction ---------------------------------------------------------------
    try:
        lat = build(spec)
    except Exception as e:  # the property: every lattice with all sides >= 2 can be constructed
        ctx.case(spec, nontrivial=False, classes=["construct-raised"])
        ctx.fail(f"construct:{tag}", spec, f"constructor raised {type(e).__name__}: {e}")
        return
    ctx.case(spec, nontrivial=(max(sides) >= 3 or nondefault), classes=[tag])
    sites = list(lat.sites)
    n = int(lat.n_sites)
    # --- 2. site list / numbering are inverse bijections --------------------------------
    if len(sites) != n or n != int(np.prod(sides)):
        ctx.fail(f"sites-count:{tag}", spec, f"len(sites)={len(sites)} n_sites={n} prod(sides)={int(np.prod(sides))}")
    nums = [int(lat.get_site_num(s)) for s in sites]
    if nums != list(range(n)):
        ctx.fail(f"site-num:{tag}", spec, f"get_site_num(sites[i]) != i (so sites[get_site_num(s)] != s): {nums[:12]}")
    if len(set(sites)) != n:
        ctx.fail(f"site-num:{tag}", spec, "site list has duplicates")
    if nums != list(range(n)):
        return
    # --- 3. neighbour relation ----------------------------------------------------------
    is_open = bool(spec.get("kw", {}).get("open_x"))
    rows_even = spec["kind"] != "tri" or sides[0] % 2 == 0
    site_set = set(tuple(int(x) for x in s) for s in sites)

    def nbrs(s):
        out = [tuple(int(x) for x in nb) for nb in np.asarray(lat.get_nearest_neighbors(tuple(s)))]
        return [x for x in out if x in site_set] if is_open else out

    if min(sides) >= 3 and (not is_open or rows_even):
        for s in site_set:
            for nb in nbrs(s):
                if nb not in site_set:
                    ctx.fail(f"neighbour-range:{tag}", spec, f"neighbour {nb} of {s} is not a site")
                    continue
                if nb == s:
                    ctx.fail(f"neighbour-irreflexive:{tag}", spec, f"{s} is its own neighbour")
                if s not in nbrs(nb):
                    ctx.fail(f"neighbour-symmetric:{tag}", spec, f"{nb} in N({s}) but {s} not in N({nb})")
        ctx.count("neighbour-relation-checked")
    # --- 4. adjacency matrix ------------------------------------------------------------
    h = _adjacency(lat, spec)
    if h.shape != (n, n):
        ctx.fail(f"adjacency-shape:{tag}", spec, f"shape {h.shape}")
        return
    if not np.array_equal(h, h.T):
        ctx.fail(f"adjacency-symmetric:{tag}", spec, f"adjacency not symmetric, {int(np.abs(h - h.T).sum())} entries differ")
    if np.any(np.diag(h) != 0):
        ctx.fail(f"adjacency-diagonal:{tag}", spec, "non-zero diagonal")
    if not set(np.unique(h)).issubset({0, 1}):
        ctx.fail(f"adjacency-values:{tag}", spec, f"entries {np.unique(h)}")
    deg = h.sum(axis=1)
    if min(sides) >= 3 and not is_open:
        ctx.count("regularity-checked")
        if not np.all(deg == lat.coord_num):
            ctx.fail(f"adjacency-degree:{tag}", spec, f"degrees {sorted(set(deg.tolist()))} != coord_num {lat.coord_num}")
    # adjacency must be exactly the (symmetrised) neighbour relation of this very lattice, whatever was built before
    want_h = np.zeros((n, n), dtype=int)
    for s in site_set:
        i = int(lat.get_site_num(s))
        for x in nbrs(s):
            if x in site_set:
                j = int(lat.get_site_num(x))
                want_h[i, j] = want_h[j, i] = 1
    if not np.array_equal(want_h, h):
        bad = np.argwhere(want_h != h)
        ctx.fail(f"adjacency-vs-neighbours:{tag}", spec, f"adjacency differs from the neighbour relation in {len(bad)} entries, first {bad[0].tolist()}")
    if is_open and rows_even:
        ctx.count("open-degree-checked")
        if np.any(deg > lat.coord_num):
            ctx.fail(f"adjacency-degree:{tag}", spec, f"open boundary: degree {int(deg.max())} > coord_num {lat.coord_num}")
    # --- 5. pytree round trips ----------------------------------------------------------
    _roundtrip(ctx, spec, lat, h, tag)


def _roundtrip(ctx, spec, lat, h, tag):
    leaves, treedef = jax.tree_util.tree_flatten(lat)
    try:
        lat2 = jax.tree_util.tree_unflatten(treedef, leaves)
    except Exception as e:
        ctx.fail(f"roundtrip-raised:{tag}", spec, f"tree_unflatten raised {type(e).__name__}: {e}")
        return
    seen = []
    try:
        jax.jit(lambda l, x: (seen.append(l), x + 1.0)[1])(lat, 0.0)
    except Exception as e:
        ctx.fail(f"roundtrip-raised:{tag}", spec, f"passing the lattice through jit raised {type(e).__name__}: {e}")
    for how, other in [("unflatten", lat2)] + [("jit", s) for s in seen[:1]]:
        a, b = _attrs(lat), _attrs(other)
        for name in a:
            if not _same(a[name], b[name]):
                kindtag = tag.split(":")[0]
                ctx.fail(f"roundtrip-attr:{kindtag}:{name}", spec, f"{how}: attribute {name}: {a[name]!r} -> {b[name]!r}")
        if not (lat == other):
            ctx.fail(f"roundtrip-eq:{tag}", spec, f"{how}: round-tripped lattice != original")
        try:
            if hash(lat) != hash(other):
                ctx.fail(f"roundtrip-hash:{tag}", spec, f"{how}: hash changed")
        except TypeError:
            pass
        h2 = _adjacency(other, spec)
        if h2.shape != h.shape or not np.array_equal(h, h2):
            ctx.fail(f"roundtrip-adjacency:{tag}", spec, f"{how}: adjacency differs in {int(np.sum(h != h2)) if h2.shape == h.shape else 'shape'} entries")
    ctx.count("roundtrip-checked")


def enum_all(ctx, tier, shard, nshards):
    for i, spec in enumerate(specs(tier)):
        if i % nshards != shard:
            continue
        ctx.run_case(check_lattice, spec)


# ---- Hypothesis: non-default attributes ------------------------------------------------------
def attr_strategy(tier):
    signs = st.sampled_from([1.0, -1.0, 0.5, 2.0])

    @st.composite
    def s(draw):
        kind = draw(st.sampled_from(["chain", "grid2d", "tri", "grid3d"]))
        kw = {}
        if kind == "chain":
            args = [draw(st.integers(2, 9))]
            if draw(st.booleans()):
                kw["hop_signs"] = [draw(signs), draw(signs)]
            if draw(st.booleans()):
                kw["coord_num"] = draw(st.integers(1, 4))
        elif kind == "grid2d":
            args = [draw(st.integers(2, 5)), draw(st.integers(2, 5))]
            if draw(st.booleans()):
                kw["hop_signs"] = [draw(signs) for _ in range(4)]
            if draw(st.booleans()):
                kw["coord_num"] = draw(st.integers(2, 6))
        elif kind == "tri":
            args = [draw(st.integers(2, 5)), draw(st.integers(2, 5))]
            kw["open_x"] = draw(st.booleans())
            if draw(st.booleans()):
                kw["coord_num"] = draw(st.integers(3, 8))
        else:
            args = [draw(st.integers(2, 3)) for _ in range(3)]
            if draw(st.booleans()):
                kw["coord_num"] = draw(st.integers(3, 8))
        return {"kind": kind, "args": args, "kw": kw}

    return s()


def attr_body(ctx, spec):
    tag = _tag(spec)
    try:
        lat = build(spec)
    except Exception as e:
        ctx.case(spec, nontrivial=False, classes=["construct-raised"])
        ctx.fail(f"construct:{tag}", spec, f"constructor raised {type(e).__name__}: {e}")
        return
    default = build({"kind": spec["kind"], "args": spec["args"], "kw": {}})
    nondefault = any(not _same(getattr(lat, k), getattr(default, k)) for k in spec["kw"])
    ctx.case(spec, nontrivial=nondefault, classes=["attr:" + tag] + (["nondefault"] if nondefault else []))
    _roundtrip(ctx, spec, lat, _adjacency(lat, spec), tag)


@st.composite
def sequence_strategy(draw, tier="quick"):
    """A short history: several lattices (often siblings differing in one attribute) built and queried in a drawn order."""
    kind = draw(st.sampled_from(["tri", "tri", "grid2d", "chain", "grid3d"]))
    n = draw(st.integers(2, 4))
    out = []
    base = [draw(st.integers(2, 5)) for _ in range({"chain": 1, "grid2d": 2, "tri": 2, "grid3d": 3}[kind])]
    if kind == "grid3d":
        base = [min(b, 3) for b in base]
    for _ in range(n):
        args = list(base) if draw(st.integers(0, 2)) else [draw(st.integers(2, 5 if kind != "grid3d" else 3)) for _ in base]
        if kind in ("grid2d", "tri") and draw(st.integers(0, 3)) == 0:
            args = args[::-1]
        kw = {}
        if kind == "tri":
            kw["open_x"] = draw(st.booleans())
        elif kind == "chain" and draw(st.booleans()):
            kw["hop_signs"] = [draw(st.sampled_from([1.0, -1.0])), draw(st.sampled_from([1.0, -1.0]))]
        elif kind == "grid2d" and draw(st.integers(0, 3)) == 0:
            kw["hop_signs"] = [draw(st.sampled_from([1.0, -1.0])) for _ in range(4)]
        out.append({"kind": kind, "args": args, "kw": kw})
    return {"sequence": out}


def sequence_body(ctx, case):
    seq = case["sequence"]
    distinct = len({json_key(s) for s in seq})
    ctx.case(case, nontrivial=distinct >= 2, classes=[f"sequence:{seq[0]['kind']}", "sequence:siblings" if any(a["args"] == b["args"] and a["kw"] != b["kw"] for a in seq for b in seq) else "sequence:unrelated"])
    for spec in seq:
        # every instance, at its position in the history, must satisfy the single-lattice clauses
        check_lattice(_Quiet(ctx), spec)


def json_key(spec):
    import json

    return json.dumps(spec, sort_keys=True)


class _Quiet:
    """Forward failures (with the whole history as the case) but do not count the inner lattices as separate cases."""

    def __init__(self, ctx):
        self._c = ctx

    def case(self, *a, **k):
        pass

    def count(self, *a, **k):
        pass

    def fail(self, bucket, case, message):
        self._c.fail("sequence:" + bucket, case, message)


SUBCHECKS = [
    SubCheck("enumerate_lattices", body=check_lattice, enum=enum_all, shards={"quick": 4, "thorough": 16}),
    SubCheck("instance_sequences", body=sequence_body, strategy=sequence_strategy, examples={"quick": 60, "thorough": 600}, shards={"quick": 2, "thorough": 4}),
    SubCheck("attribute_roundtrip", body=attr_body, strategy=attr_strategy, examples={"quick": 150, "thorough": 1500}, shards={"quick": 1, "thorough": 4}),
]
