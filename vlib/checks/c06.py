"""C06 — AD energy derivatives are the true derivatives of the sampled estimator."""
import numpy as np

from vlib import env

env.setup()
import hypothesis
import jax
import jax.numpy as jnp
from hypothesis import strategies as st
from jax import jvp, vjp

from ad_afqmc import sampling
from vlib import gens, runs
from vlib import samplerlib as sl
from vlib.harness import SubCheck

PROPERTY = "C06"
LEVEL = "exploration"
RULE = (
    "Hypothesis draws a problem (symmetric Hamiltonian with a gap, 1-2 Cholesky matrices, trial converged to an SCF fixed point), a symmetric observable (spin-"
    "dependent for unrestricted walkers), a PRNG key, perturbed initial walkers and one of a fixed table of static configurations (entry point x walker type x "
    "block structure: each costs one XLA compilation, numbers vary per example). For the fixed key the block energy f(lambda) is a deterministic function: "
    "(a) jvp tangent (called exactly as driver.afqmc does) vs central differences of the same jitted function at h in {1e-3, 3e-4, 1e-4}; (b) sum(vjp rdm1 * O) vs "
    "the jvp response to O, primal(jvp) = primal(vjp) = plain sampler energy with the same block structure; per-spin trace of the vjp rdm1 = electron count when "
    "n_ene_blocks = n_sr_blocks = 1; (c) one-body limit (Cholesky matrices = 0, exact trial): energy = h0 + sum_occ eps_i and response = tr(rho O) analytically, also "
    "through a complete driver.afqmc run read back from samples_raw.dat / rdm1_afqmc.npz; (d) 2-RDM variant: vjp contracted with an in-range perturbation of the "
    "two-body operator vs central differences. Finite differences that disagree among themselves (a clipping / comb / cap branch crossed) make the case "
    "inconclusive (counted), never a violation. Non-trivial = two-body term present, observable not commuting with h1."
)
ASSUMPTIONS = [
    "derivative clauses compare at relative 1e-5 of max(|derivative|, 0.01 (1 + |E|)); finite differences must agree among themselves to the same tolerance first",
    "one-body limit: tolerances 1e-8 (function level), 2e-5 relative (driver level: float32 storage)",
]

CONFIGS = [
    {"entry": "ad", "wt": "uhf", "shape": (3, (2, 1)), "nw": 4, "steps": 3, "ene": 2, "sr": 2},
    {"entry": "ad", "wt": "rhf", "shape": (3, (1, 1)), "nw": 4, "steps": 3, "ene": 1, "sr": 1},
    {"entry": "ad_nosr", "wt": "uhf", "shape": (3, (2, 1)), "nw": 4, "steps": 2, "ene": 2, "sr": 1},
    {"entry": "ad_norot", "wt": "rhf", "shape": (3, (1, 1)), "nw": 4, "steps": 2, "ene": 2, "sr": 2},
    {"entry": "ad_nosr_norot", "wt": "uhf", "shape": (4, (2, 2)), "nw": 6, "steps": 2, "ene": 1, "sr": 1},
    {"entry": "ad_norot", "wt": "uhf", "shape": (4, (2, 1)), "nw": 4, "steps": 4, "ene": 1, "sr": 2},
    {"entry": "ad_nosr", "wt": "rhf", "shape": (4, (2, 2)), "nw": 4, "steps": 3, "ene": 1, "sr": 1},
    {"entry": "ad_nosr_norot", "wt": "rhf", "shape": (3, (2, 2)), "nw": 2, "steps": 2, "ene": 2, "sr": 1},
]


@st.composite
def ad_case(draw, tier, shard=0, nshards=1, zero_chol=False):
    cfgs = [c for i, c in enumerate(CONFIGS) if i % nshards == shard] or CONFIGS
    c = draw(st.sampled_from(cfgs))
    p = draw(sl.problem(walker_types=(c["wt"],), shapes={c["wt"]: [c["shape"]]}, n_walkers=(c["nw"],), dts=(0.01,), nchol=(2,)))
    p["n_batch"] = 1
    norb = c["shape"][0]
    o = draw(gens.real((2, norb, norb)))
    off = np.zeros((norb, norb))
    off[0, norb - 1] = off[norb - 1, 0] = 0.3  # keeps the observable from commuting with h1 when the draw shrinks to zero
    # the reverse-mode rdm1 is the gradient with respect to every matrix element separately, so the estimator must be differentiable along
    # non-symmetric directions too: a third of the observables are left non-symmetric
    p_sym = draw(st.integers(0, 2)) != 0
    o = ((o + o.transpose(0, 2, 1)) / 2 if p_sym else o) + off
    if c["wt"] == "rhf" or draw(st.booleans()):
        o = np.stack([o[0], o[0]])
    p.update({"entry": c["entry"], "n_prop_steps": c["steps"], "n_ene_blocks": c["ene"], "n_sr_blocks": c["sr"], "obs": o, "perturb": draw(st.sampled_from([0.05, 0.15]))})
    p["small_gap"] = False
    if c["entry"] in ("ad", "ad_nosr") and draw(st.integers(0, 2)) == 0:
        # nearly degenerate HOMO-LUMO pair (gap 2e-3 .. 5e-4, still far above the 1e-5 degeneracy threshold of the eigen-derivative):
        # the orbital response is large and must still be the true derivative
        nocc = c["shape"][1][0]
        e, v = np.linalg.eigh(np.asarray(p["h1"]))
        e = np.arange(norb) * 1.0
        e[nocc] = e[nocc - 1] + draw(st.sampled_from([2e-3, 1e-3, 5e-4]))
        p["h1"] = v @ np.diag(e) @ v.T
        p["chol"] = np.asarray(p["chol"]) * 0.02
        p["small_gap"] = True
    if zero_chol:
        p["chol"] = np.zeros_like(np.asarray(p["chol"]))
    return p


def _smp(c):
    return sampling.sampler(n_prop_steps=int(c["n_prop_steps"]), n_ene_blocks=int(c["n_ene_blocks"]), n_sr_blocks=int(c["n_sr_blocks"]), n_blocks=1)


def _commutes(a, b):
    return float(np.max(np.abs(a @ b - b @ a))) < 1e-9


def _prep(ctx, case, need_converged=True):
    P = sl.Problem(case)
    if need_converged and not P.converged:
        ctx.count("rejected:scf-not-converged")
        hypothesis.assume(False)
    hd = P.ham_data()
    pd = P.prop_data(hd, perturb=float(case["perturb"]))
    return P, hd, pd


def fd_body(ctx, case):
    # f(lambda) contains a fixed number of SCF iterations and is a deterministic function whether or not they converged
    P, hd, pd = _prep(ctx, case, need_converged=not case.get("small_gap"))
    obs = jnp.asarray(np.asarray(case["obs"], float))
    smp = _smp(case)
    f = sl.entry_point(case["entry"], smp, P, hd)
    tag = f"{case['entry']}:{case['walker_type']}"
    nontriv = bool(np.any(np.asarray(case["chol"]))) and not _commutes(np.asarray(case["obs"])[0], P.h1)
    osym = bool(np.allclose(np.asarray(case["obs"]), np.asarray(case["obs"]).transpose(0, 2, 1)))
    ctx.case(case, nontrivial=nontriv, classes=["fd:" + tag, f"blocks={case['n_sr_blocks']}x{case['n_ene_blocks']}x{case['n_prop_steps']}", "observable:" + ("symmetric" if osym else "non-symmetric")] + (["fd:small-homo-lumo-gap"] if case.get("small_gap") else []))
    try:
        e0, de, _ = jvp(f, (0.0, obs, sl.copy_pd(pd)), (1.0, 0.0 * obs, sl.tangent_like(pd)), has_aux=True)
        e0, de = float(e0), float(de)
        ds = []
        for h in ((1e-3, 3e-4, 1e-4) if not case.get("small_gap") else (1e-5, 3e-6, 1e-6)):
            ep = float(f(h, obs, sl.copy_pd(pd))[0])
            em = float(f(-h, obs, sl.copy_pd(pd))[0])
            ds.append((ep - em) / (2 * h))
    except Exception as ex:
        ctx.fail(f"fd:raised-{type(ex).__name__}:{tag}", case, f"{type(ex).__name__}: {str(ex)[:300]}")
        return
    if not np.isfinite(de):
        ctx.fail(f"fd:jvp-not-finite:{tag}", case, f"jvp derivative {de!r}")
        return
    scale = max(abs(de), 0.01 * (1.0 + abs(e0)))
    spread = max(abs(ds[0] - ds[1]), abs(ds[1] - ds[2]), abs(ds[0] - ds[2]))
    gap = abs(de - ds[2])
    ctx.err(f"|jvp - central difference| / scale [{tag}]", gap / scale if spread <= 1e-5 * scale else 0.0)
    if gap <= 1e-5 * scale + spread:
        return
    # the derivative disagrees with the finite differences: decisive only if the finite differences agree among themselves much better
    # than they disagree with the jvp (otherwise a clipping / comb / cap branch or a strong non-linearity lies between the points)
    if spread > 0.1 * gap:
        ctx.inconclusive("finite-differences-disagree-among-themselves")
        return
    ctx.fail(f"fd:jvp-vs-central-difference:{tag}" + (":small-gap" if case.get("small_gap") else ""), case, f"jvp {de!r} vs central differences {ds} (spread {spread:.2e}, scale {scale:.2e})")


def vjp_body(ctx, case):
    P, hd, pd = _prep(ctx, case)
    obs = jnp.asarray(np.asarray(case["obs"], float))
    smp = _smp(case)
    f = sl.entry_point(case["entry"], smp, P, hd)
    tag = f"{case['entry']}:{case['walker_type']}"
    nontriv = bool(np.any(np.asarray(case["chol"]))) and not _commutes(np.asarray(case["obs"])[0], P.h1)
    ctx.case(case, nontrivial=nontriv, classes=["vjp:" + tag, "single-block" if (case["n_ene_blocks"] == 1 and case["n_sr_blocks"] == 1) else "multi-block"])
    try:
        e_j, de, _ = jvp(f, (0.0, obs, sl.copy_pd(pd)), (1.0, 0.0 * obs, sl.tangent_like(pd)), has_aux=True)
        rdm_op = 0.0 * jnp.asarray(hd["h1"])
        e_v, fun, _ = vjp(f, 1.0, rdm_op, sl.copy_pd(pd), has_aux=True)
        rdm1 = np.asarray(fun(1.0)[1])
        sr_blocks = int(case["n_sr_blocks"]) if case["entry"] in ("ad", "ad_norot") else 1
        smp_plain = sampling.sampler(n_prop_steps=smp.n_prop_steps, n_ene_blocks=smp.n_ene_blocks, n_sr_blocks=sr_blocks, n_blocks=1)
        e_p, _ = smp_plain.propagate_phaseless(P.ham, hd, P.prop, sl.copy_pd(pd), P.trial, P.wave_data)
    except Exception as ex:
        ctx.fail(f"vjp:raised-{type(ex).__name__}:{tag}", case, f"{type(ex).__name__}: {str(ex)[:300]}")
        return
    e_j, de, e_v, e_p = float(e_j), float(de), float(e_v), float(e_p)
    if not np.all(np.isfinite(rdm1)):
        ctx.fail(f"vjp:rdm1-not-finite:{tag}", case, "reverse-mode rdm1 contains nan/inf")
        return
    sc = max(1.0, abs(e_p))
    ctx.check_close(f"vjp:primal-jvp-vs-plain:{tag}", case, f"primal(jvp) - plain sampler [{tag}]", e_j, e_p, 1e-9, sc)
    ctx.check_close(f"vjp:primal-vjp-vs-plain:{tag}", case, f"primal(vjp) - plain sampler [{tag}]", e_v, e_p, 1e-9, sc)
    contr = float(np.sum(rdm1 * np.asarray(obs)))
    scale = max(abs(de), 0.01 * (1.0 + abs(e_p)))
    ctx.check_close(f"vjp:contraction-vs-jvp:{tag}", case, f"sum(vjp rdm1 * O) - jvp response [{tag}]", contr, de, 1e-8, scale)
    if case["n_ene_blocks"] == 1 and case["n_sr_blocks"] == 1:
        tr = [float(np.trace(rdm1[0])), float(np.trace(rdm1[1]))]
        want = [float(P.nelec[0]), float(P.nelec[1])]
        ctx.count("trace-clause-checked")
        ctx.check_close(f"vjp:rdm1-trace:{tag}", case, f"per-spin trace of the vjp rdm1 - electron count [{tag}]", np.array(tr), np.array(want), 1e-7, max(want))


# ---- one-body limit ----------------------------------------------------------------------------------------------------------
def ob_strategy(tier, shard=0, nshards=1):
    return ad_case(tier, shard, nshards, zero_chol=True)


def ob_body(ctx, case):
    P, hd, pd = _prep(ctx, case)
    obs_np = np.asarray(case["obs"], float)
    obs = jnp.asarray(obs_np)
    smp = _smp(case)
    f = sl.entry_point(case["entry"], smp, P, hd)
    tag = f"{case['entry']}:{case['walker_type']}"
    ctx.case(case, nontrivial=not _commutes(obs_np[0], P.h1), classes=["one-body:" + tag])
    e, v = np.linalg.eigh(P.h1)
    occ = [v[:, : P.nelec[0]], v[:, : P.nelec[1]]]
    e_exact = float(case["h0"]) + float(np.sum(e[: P.nelec[0]]) + np.sum(e[: P.nelec[1]]))
    resp = float(np.trace(occ[0].T @ obs_np[0] @ occ[0]) + np.trace(occ[1].T @ obs_np[1] @ occ[1]))
    if P.nelec[0] < P.norb and e[P.nelec[0]] - e[P.nelec[0] - 1] < 0.2:
        ctx.count("rejected:small-gap")
        hypothesis.assume(False)
    try:
        e_j, de, _ = jvp(f, (0.0, obs, sl.copy_pd(pd)), (1.0, 0.0 * obs, sl.tangent_like(pd)), has_aux=True)
        e_v, fun, _ = vjp(f, 1.0, 0.0 * jnp.asarray(hd["h1"]), sl.copy_pd(pd), has_aux=True)
        rdm1 = np.asarray(fun(1.0)[1])
    except Exception as ex:
        ctx.fail(f"one-body:raised-{type(ex).__name__}:{tag}", case, f"{type(ex).__name__}: {str(ex)[:300]}")
        return
    sc = max(1.0, abs(e_exact))
    ctx.check_close(f"one-body:energy:{tag}", case, f"energy - (h0 + sum_occ eps) [{tag}]", float(e_j), e_exact, 1e-8, sc)
    if case["entry"] not in ("ad", "ad_nosr"):
        # without orbital relaxation the derivative is the mixed estimator of O for the (perturbed) walkers, not tr(rho O):
        # the property states the analytic value for the orbital-relaxed response only
        ctx.count("one-body:response-clause-not-applicable-without-relaxation")
        return
    ctx.check_close(f"one-body:forward-response:{tag}", case, f"jvp response - tr(rho O) [{tag}]", float(de), resp, 1e-7, max(1.0, abs(resp)))
    ctx.check_close(f"one-body:reverse-response:{tag}", case, f"sum(vjp rdm1 * O) - tr(rho O) [{tag}]", float(np.sum(rdm1 * obs_np)), resp, 1e-7, max(1.0, abs(resp)))
    rho = np.stack([occ[0] @ occ[0].T, occ[1] @ occ[1].T])
    sym = (rdm1 + rdm1.transpose(0, 2, 1)) / 2
    ctx.check_close(f"one-body:reverse-rdm1:{tag}", case, f"symmetrised vjp rdm1 - exact density matrix [{tag}]", sym[0] + sym[1], rho[0] + rho[1], 1e-6, 1.0)


DRV = [("forward", "uhf"), ("reverse", "uhf"), ("forward", "rhf"), ("reverse", "rhf")]


@st.composite
def ob_driver_case(draw, tier, shard=0, nshards=1):
    mode, wt = DRV[shard % len(DRV)] if nshards > 1 else draw(st.sampled_from(DRV))
    p = draw(sl.problem(walker_types=(wt,), shapes={"rhf": [(3, (1, 1))], "uhf": [(3, (2, 1))]}, n_walkers=(4,), dts=(0.01,), nchol=(1,)))
    p["n_batch"] = 1
    p["chol"] = np.zeros_like(np.asarray(p["chol"]))
    o = draw(gens.real((3, 3)))
    off = np.zeros((3, 3))
    off[0, 2] = off[2, 0] = 0.3
    p.update({"ad_mode": mode, "obs": (o + o.T) / 2 + off, "obs_const": draw(st.sampled_from([0.0, 1.5]))})
    return p


def ob_driver_body(ctx, case):
    P = sl.Problem(case)
    if not P.converged:
        ctx.count("rejected:scf-not-converged")
        hypothesis.assume(False)
    o = np.asarray(case["obs"], float)
    e, v = np.linalg.eigh(P.h1)
    if e[P.nelec[0]] - e[P.nelec[0] - 1] < 0.2:
        ctx.count("rejected:small-gap")
        hypothesis.assume(False)
    ctx.case(case, nontrivial=not _commutes(o, P.h1), classes=[f"one-body-driver:{case['ad_mode']}:{case['walker_type']}"])
    occ = [v[:, : P.nelec[0]], v[:, : P.nelec[1]]]
    e_exact = float(case["h0"]) + float(np.sum(e[: P.nelec[0]]) + np.sum(e[: P.nelec[1]]))
    resp = float(np.trace(occ[0].T @ o @ occ[0]) + np.trace(occ[1].T @ o @ occ[1])) + float(case["obs_const"])
    smp = sampling.sampler(n_prop_steps=2, n_ene_blocks=1, n_sr_blocks=1, n_blocks=3)
    opts = runs.default_options(seed=int(case["seed"]) % 100000, n_walkers=P.nw, dt=P.dt, n_prop_steps=2, n_ene_blocks=1, n_sr_blocks=1, n_blocks=3, walker_type=case["walker_type"], ad_mode=case["ad_mode"])
    try:
        out = runs.run_driver(P.ham_data0, P.ham, P.prop, P.trial, P.wave_data, smp, [np.stack([o, o]), float(case["obs_const"])], opts, keep=("rdm1_afqmc.npz",))
    except Exception as ex:
        ctx.fail(f"one-body-driver:raised-{type(ex).__name__}:{case['ad_mode']}", case, f"{type(ex).__name__}: {str(ex)[:300]}")
        return
    raw = out["samples_raw"]
    if raw is None or raw.shape != (3, 3):
        ctx.fail("one-body-driver:samples", case, f"samples_raw.dat shape {None if raw is None else raw.shape}")
        return
    ctx.check_close(f"one-body-driver:energy:{case['ad_mode']}", case, "block energies - (h0 + sum_occ eps)", raw[:, 1], np.full(3, e_exact), 2e-5, max(1.0, abs(e_exact)))
    ctx.check_close(f"one-body-driver:observable:{case['ad_mode']}", case, "block observables - (tr(rho O) + constant)", raw[:, 2], np.full(3, resp), 2e-5, max(1.0, abs(resp)))
    if case["ad_mode"] == "reverse":
        import io

        blob = out["files"].get("rdm1_afqmc.npz")
        if not blob:
            ctx.fail("one-body-driver:no-rdm-file", case, "reverse mode wrote no rdm1_afqmc.npz")
            return
        rdm = np.load(io.BytesIO(blob))["rdm1"]
        rho = np.stack([occ[0] @ occ[0].T, occ[1] @ occ[1].T])
        sym = (rdm + rdm.transpose(0, 2, 1)) / 2
        ctx.check_close("one-body-driver:rdm1-file", case, "symmetrised rdm1_afqmc.npz (spin sum) - exact density matrix", sym[0] + sym[1], rho[0] + rho[1], 2e-5, 1.0)


# ---- 2-RDM variant ------------------------------------------------------------------------------------------------------------
@st.composite
def rdm2_case(draw, tier, shard=0, nshards=1):
    wt = ("uhf", "rhf")[shard % 2] if nshards > 1 else draw(st.sampled_from(["uhf", "rhf"]))
    p = draw(sl.problem(walker_types=(wt,), shapes={"rhf": [(3, (1, 1))], "uhf": [(3, (2, 1))]}, n_walkers=(4,), dts=(0.01,), nchol=(2,)))
    p["n_batch"] = 1
    dl = draw(gens.real((2, 3, 3)))
    # the two Cholesky matrices must be linearly independent (the JAX factorisation is only defined for nchol = rank)
    base = np.array([np.diag([0.6, 0.3, 0.1]), np.array([[0.0, 0.4, 0.0], [0.4, 0.0, 0.2], [0.0, 0.2, 0.0]])])
    p["chol"] = base + 0.3 * np.asarray(p["chol"])
    p.update({"n_prop_steps": 2, "n_ene_blocks": 1, "n_sr_blocks": 1, "dL": (dl + dl.transpose(0, 2, 1)) / 2, "perturb": 0.1})
    return p


def rdm2_body(ctx, case):
    P, hd, pd = _prep(ctx, case)
    norb = P.norb
    L = P.chol.reshape(-1, norb * norb)
    dL = np.asarray(case["dL"], float).reshape(-1, norb * norb)
    ctx.case(case, nontrivial=bool(np.any(L)), classes=["2rdm:" + case["walker_type"]])
    smp = _smp(case)
    f = sl.entry_point("ad_1", smp, P, hd)
    V = lambda h: jnp.asarray(np.einsum("gj,gl->jl", L + h * dL, L + h * dL).reshape(norb, norb, norb, norb))
    dV = np.einsum("gj,gl->jl", dL, L) + np.einsum("gj,gl->jl", L, dL)
    try:
        e0, fun, _ = vjp(f, 1.0, V(0.0), sl.copy_pd(pd), has_aux=True)
        g = np.asarray(fun(1.0)[1]).reshape(norb * norb, norb * norb)
        ds = []
        for h in (1e-3, 3e-4, 1e-4):
            ds.append((float(f(1.0, V(h), sl.copy_pd(pd))[0]) - float(f(1.0, V(-h), sl.copy_pd(pd))[0])) / (2 * h))
    except Exception as ex:
        ctx.fail(f"2rdm:raised-{type(ex).__name__}:{case['walker_type']}", case, f"{type(ex).__name__}: {str(ex)[:300]}")
        return
    if not np.all(np.isfinite(g)):
        ctx.fail(f"2rdm:not-finite:{case['walker_type']}", case, "reverse-mode 2-RDM contains nan/inf")
        return
    contr = float(np.sum(g * dV))
    scale = max(abs(contr), 0.01 * (1.0 + abs(float(e0))))
    if max(abs(ds[0] - ds[1]), abs(ds[1] - ds[2])) > 1e-5 * scale:
        ctx.inconclusive("finite-differences-disagree-among-themselves")
        return
    ctx.check_close(f"2rdm:vjp-vs-central-difference:{case['walker_type']}", case, "sum(vjp * dV) - central difference", contr, ds[1], 1e-5, scale)


def fd_strategy(tier, shard=0, nshards=1):
    return ad_case(tier, shard, nshards)


# ---- the density matrix the driver writes in reverse mode -----------------------------------------------------------------------
@st.composite
def drv_rdm_case(draw, tier, shard=0, nshards=1):
    wt = ("uhf", "rhf")[shard % 2] if nshards > 1 else draw(st.sampled_from(["uhf", "rhf"]))
    # strongly interacting, large time step, many short blocks: the block density matrices fluctuate enough for the driver's outlier filters
    # to drop some of them now and then
    p = draw(sl.problem(walker_types=(wt,), shapes={"rhf": [(3, (1, 1))], "uhf": [(3, (2, 1))]}, n_walkers=(6,), dts=(0.05,), nchol=(2,), chol_scale=(0.6, 0.8)))
    p["n_batch"] = 1
    p["n_blocks"] = draw(st.sampled_from([10, 12, 14]))
    return p


def drv_rdm_body(ctx, case):
    """With one energy block per sampling block every block's reverse-mode density matrix has per-spin trace = electron count (checked at the
    sampler level in vjp_vs_jvp_and_primals); whatever blocks the driver keeps and however it weights them, a normalised average keeps that trace."""
    import io

    P = sl.Problem(case)
    if not P.converged:
        ctx.count("rejected:scf-not-converged")
        hypothesis.assume(False)
    nb = int(case["n_blocks"])
    ctx.case(case, nontrivial=True, classes=[f"driver-rdm1:{case['walker_type']}", f"driver-rdm1:n_blocks={nb}"])
    smp = sampling.sampler(n_prop_steps=4, n_ene_blocks=1, n_sr_blocks=1, n_blocks=nb)
    opts = runs.default_options(seed=int(case["seed"]) % 100000, n_walkers=P.nw, dt=P.dt, n_prop_steps=4, n_ene_blocks=1, n_sr_blocks=1, n_blocks=nb, walker_type=case["walker_type"], ad_mode="reverse")
    o = np.eye(P.norb)
    try:
        out = runs.run_driver(P.ham_data0, P.ham, P.prop, P.trial, P.wave_data, smp, [np.stack([o, o]), 0.0], opts, keep=("rdm1_afqmc.npz",))
    except Exception as ex:
        ctx.fail(f"driver-rdm1:raised-{type(ex).__name__}", case, f"{type(ex).__name__}: {str(ex)[:300]}")
        return
    raw = out["samples_raw"]
    blob = out["files"].get("rdm1_afqmc.npz")
    if raw is None or not np.all(np.isfinite(raw)) or np.any(raw[:, 0] == 0):
        ctx.count("skipped:population-died-or-nonfinite-samples")
        return
    if not blob:
        ctx.fail("driver-rdm1:no-rdm-file", case, "reverse mode wrote no rdm1_afqmc.npz")
        return
    d = np.load(io.BytesIO(blob))
    r = np.asarray(d[d.files[0]])
    if not np.all(np.isfinite(r)):
        ctx.count("skipped:nonfinite-density-matrix")
        return
    tr = np.array([np.trace(r[0]).real, np.trace(r[1]).real]) if r.ndim == 3 else np.array([np.trace(r).real])
    want = np.array([P.nelec[0], P.nelec[1]], float) if r.ndim == 3 else np.array([float(P.nelec[0] + P.nelec[1])])
    ctx.check_close(f"driver-rdm1:trace:{case['walker_type']}", case, "per-spin trace of the written density matrix - electron count", tr, want, 1e-5, 1.0)


SUBCHECKS = [
    SubCheck("jvp_vs_finite_differences", body=fd_body, strategy=fd_strategy, examples={"quick": 4, "thorough": 40}, shards={"quick": 8, "thorough": 8}, shrink=False),
    SubCheck("vjp_vs_jvp_and_primals", body=vjp_body, strategy=fd_strategy, examples={"quick": 3, "thorough": 30}, shards={"quick": 8, "thorough": 8}, shrink=False),
    SubCheck("one_body_limit", body=ob_body, strategy=ob_strategy, examples={"quick": 3, "thorough": 30}, shards={"quick": 8, "thorough": 8}, shrink=False),
    SubCheck("driver_rdm1_trace", body=drv_rdm_body, strategy=drv_rdm_case, examples={"quick": 1, "thorough": 8}, shards={"quick": 4, "thorough": 8}, shrink=False),
    SubCheck("one_body_limit_driver", body=ob_driver_body, strategy=ob_driver_case, examples={"quick": 1, "thorough": 8}, shards={"quick": 4, "thorough": 4}, shrink=False),
    SubCheck("two_rdm_vjp_vs_finite_differences", body=rdm2_body, strategy=rdm2_case, examples={"quick": 2, "thorough": 20}, shards={"quick": 2, "thorough": 2}, shrink=False),
]
