"""C17 — Cholesky factorisations reproduce their input and stay differentiable."""
import numpy as np

from vlib import env

env.setup()
import jax
import jax.numpy as jnp
from hypothesis import strategies as st
from hypothesis.extra import numpy as hnp

from ad_afqmc import linalg_utils, pyscf_interface
from vlib.harness import SubCheck

PROPERTY = "C17"
LEVEL = "exploration"
RULE = (
    "Hypothesis draws a factor B (size 1..30 x rank 1..size, entries in [-1,1], optional diagonal scaling 10^[-3,3] per row, optional "
    "duplicated rows = repeated pivots) and a threshold 1e-3..1e-10; M = B B^T is the symmetric PSD input. NumPy routine: element-wise "
    "reconstruction error <= threshold (+1e-9 relative slack). JAX routine (sizes from a fixed table to bound compilation): asked for "
    "rank-many vectors it must reproduce M to 1e-9 relative, and its jvp along in-range PSD-preserving tangents dB B^T + B dB^T must be "
    "finite and equal central differences of the reconstructed matrix. chunked_cholesky: H2..H4 chains/rings with generated bond lengths "
    "and basis, compared with the full (ij|kl) matrix from pyscf. Non-trivial = size >= 2; classes rank-one / low-rank / full-rank are "
    "counted separately; distinct by SHA-1 of the inputs."
)
ASSUMPTIONS = [
    "NumPy routines add 1e-10 to the pivot before the square root: tolerance = threshold*(1+1e-6) + 1e-9*max|M|",
    "JAX routine: condition number of the generated rank-r factor is bounded (rows rescaled by at most 1e3), relative tolerance 1e-9*cond-aware scale",
    "molecules limited to <= 8 AOs so that the full ERI matrix is a cheap oracle",
]


def psd_strategy(max_size, sizes=None):
    @st.composite
    def s(draw):
        n = draw(st.sampled_from(sizes)) if sizes else draw(st.integers(1, max_size))
        rk_kind = draw(st.sampled_from(["one", "low", "low", "full", "full"]))
        r = 1 if rk_kind == "one" else (n if rk_kind == "full" else draw(st.integers(1, n)))
        B = draw(hnp.arrays(np.float64, (n, r), elements=st.floats(-1, 1, width=32)))
        # make rank exactly r with a well-conditioned core: add a scaled identity block
        B = B + 1.5 * np.eye(n, r)
        scale_kind = draw(st.sampled_from(["none", "none", "rows", "global"]))
        if scale_kind == "rows":
            sc = np.array([10.0 ** draw(st.integers(-3, 3)) for _ in range(n)])
            B = B * sc[:, None]
        elif scale_kind == "global":
            B = B * 10.0 ** draw(st.integers(-3, 3))
        dup = False
        if n >= 2 and draw(st.integers(0, 3)) == 0:
            i, j = draw(st.integers(0, n - 1)), draw(st.integers(0, n - 1))
            if i != j:
                B = B.copy()
                B[j] = B[i]
                dup = True
        return {"B": B, "dup": dup}

    return s()


def _rank_class(B):
    n, r = B.shape
    rk = int(np.linalg.matrix_rank(B))
    return rk, ("rank-one" if rk == 1 else ("full-rank" if rk == n else "low-rank"))


# ---- NumPy routine ----------------------------------------------------------------------------
@st.composite
def numpy_case(draw, tier="quick"):
    c = draw(psd_strategy(30 if tier == "thorough" else 16))
    c["thr"] = draw(st.sampled_from([1e-3, 1e-4, 1e-5, 1e-6, 1e-8, 1e-10]))
    return c


def numpy_body(ctx, case):
    B = np.asarray(case["B"], float)
    thr = float(case["thr"])
    M = B @ B.T
    n = M.shape[0]
    if not np.any(M):
        ctx.case(case, nontrivial=False, classes=["zero-matrix"])
        return
    rk, cls = _rank_class(B)
    ctx.case(case, nontrivial=n >= 2, classes=["numpy:" + cls, "size=1" if n == 1 else "size>=2"] + (["repeated-pivot"] if case.get("dup") else []))
    tag = "full-rank" if rk == n else "rank-deficient"
    if thr < 1e-12 * float(np.max(np.abs(M))):
        # a threshold below the round-off resolution of the matrix itself (eps * max|M|) cannot be met by any float64 routine
        ctx.count("skipped:threshold-below-roundoff-of-the-input")
        return
    try:
        L = pyscf_interface.modified_cholesky(M.copy(), thr)
    except Exception as ex:
        ctx.fail(f"numpy:raised-{type(ex).__name__}:{tag}", case, f"{type(ex).__name__}: {ex}")
        return
    L = np.asarray(L)
    if L.ndim != 2 or L.shape[1] != n:
        ctx.fail(f"numpy:shape:{tag}", case, f"returned shape {L.shape}")
        return
    rec = L.T @ L
    err = float(np.max(np.abs(M - rec)))
    tol = thr * (1 + 1e-6) + 1e-9 * float(np.max(np.abs(M)))
    ctx.err("numpy: max|M-LL^T| / tol", err / tol)
    if not err <= tol:
        ctx.fail(f"numpy:reconstruction:{tag}", case, f"size {n} rank {rk} threshold {thr:g}: {L.shape[0]} vectors, max|M - sum L L^T| = {err:.3e}")
    if not np.all(np.isfinite(L)):
        ctx.fail(f"numpy:nonfinite:{tag}", case, "non-finite Cholesky vector")


# ---- JAX routine ------------------------------------------------------------------------------
JAX_SIZES = [1, 2, 3, 4, 6, 9]


@st.composite
def jax_case(draw, tier="quick"):
    c = draw(psd_strategy(None, sizes=JAX_SIZES + ([16] if tier == "thorough" else [])))
    n, r = c["B"].shape
    c["dB"] = draw(hnp.arrays(np.float64, (n, r), elements=st.floats(-1, 1, width=32)))
    return c


def _recon(M, norb, nchol):
    L = linalg_utils.modified_cholesky(M, norb, nchol)
    return L.T @ L


def jax_body(ctx, case):
    B = np.asarray(case["B"], float)
    dB = np.asarray(case["dB"], float) * np.max(np.abs(B), axis=1, keepdims=True)
    n = B.shape[0]
    M = B @ B.T
    if not np.any(M):
        ctx.case(case, nontrivial=False, classes=["zero-matrix"])
        return
    rk, cls = _rank_class(B)
    s = np.linalg.svd(B, compute_uv=False)
    cond = float(s[0] / s[rk - 1])
    ctx.case(case, nontrivial=n >= 2, classes=["jax:" + cls, f"jax:size={n}"] + (["repeated-pivot"] if case.get("dup") else []))
    if cond > 1e5:
        ctx.inconclusive("ill-conditioned-factor")
        return
    scale = float(np.max(np.abs(M))) * cond**2
    try:
        L = np.asarray(linalg_utils.modified_cholesky(jnp.asarray(M), int(round(n**0.5)) or 1, rk))
    except Exception as ex:
        ctx.fail(f"jax:raised-{type(ex).__name__}", case, f"{type(ex).__name__}: {ex}")
        return
    if L.shape != (rk, n):
        ctx.fail("jax:shape", case, f"asked for {rk} vectors of length {n}, got {L.shape}")
        return
    ctx.check_close("jax:reconstruction:" + cls, case, "jax: M - L^T L (nchol=rank)", L.T @ L, M, 1e-9, scale)
    # derivative along an in-range tangent
    dM = dB @ B.T + B @ dB.T
    f = lambda X: _recon(X, 1, rk)
    try:
        _, tang = jax.jvp(f, (jnp.asarray(M),), (jnp.asarray(dM),))
    except Exception as ex:
        ctx.fail(f"jax:jvp-raised-{type(ex).__name__}", case, f"{type(ex).__name__}: {ex}")
        return
    tang = np.asarray(tang)
    if not np.all(np.isfinite(tang)):
        ctx.fail("jax:jvp-nonfinite:" + cls, case, "jvp of the reconstructed matrix is not finite")
        return
    if case.get("dup"):
        # two identical pivots: argmax tie, the derivative is one-sided; finite is all the property asks
        ctx.count("jax:jvp-tie-only-finiteness")
        return
    fds = []
    for h in (1e-4, 1e-5):
        Mp = (B + h * dB) @ (B + h * dB).T
        Mm = (B - h * dB) @ (B - h * dB).T
        fds.append((np.asarray(f(jnp.asarray(Mp))) - np.asarray(f(jnp.asarray(Mm)))) / (2 * h))
    dscale = (float(np.max(np.abs(dM))) + 1e-6 * float(np.max(np.abs(M)))) * cond**2
    if np.max(np.abs(fds[0] - fds[1])) > 1e-5 * dscale + 50 * 2.2e-16 * float(np.max(np.abs(M))) * cond**2 / 1e-5:
        ctx.inconclusive("finite-differences-disagree (pivot order changes between +-h)")
        return
    fd_noise = 50 * 2.2e-16 * float(np.max(np.abs(M))) * cond**2 / 1e-5  # round-off of the difference quotient at h = 1e-5
    ctx.check_close("jax:jvp-vs-finite-difference:" + cls, case, "jax: jvp - central difference", tang, fds[1], 1e-5, dscale + fd_noise / 1e-5)
    ctx.check_close("jax:jvp-vs-tangent:" + cls, case, "jax: jvp - dM (identity on rank-r matrices)", tang, dM, 1e-7, dscale)


# ---- shell-chunked variant on molecular ERIs ----------------------------------------------------
@st.composite
def mol_case(draw, tier="quick"):
    nat = draw(st.integers(2, 4))
    basis = draw(st.sampled_from(["sto-3g", "sto-3g", "6-31g"]))
    if basis == "6-31g" and nat > 3:
        nat = 3
    shape = draw(st.sampled_from(["chain", "ring"])) if nat >= 3 else "chain"
    d = draw(st.floats(0.6, 2.5))
    jit = [draw(st.floats(-0.1, 0.1)) for _ in range(3 * nat)]
    return {"nat": nat, "basis": basis, "shape": shape, "d": d, "jitter": jit, "thr": draw(st.sampled_from([1e-3, 1e-5, 1e-6, 1e-8])), "heavy": draw(st.sampled_from([None, None, "Li"]))}


def build_mol(case):
    from pyscf import gto

    nat, d = int(case["nat"]), float(case["d"])
    jit = np.asarray(case["jitter"], float).reshape(nat, 3)
    if case["shape"] == "ring":
        R = d / (2 * np.sin(np.pi / nat))
        xyz = np.array([[R * np.cos(2 * np.pi * k / nat), R * np.sin(2 * np.pi * k / nat), 0.0] for k in range(nat)])
    else:
        xyz = np.array([[0.0, 0.0, d * k] for k in range(nat)])
    xyz = xyz + jit
    syms = ["H"] * nat
    if case.get("heavy") and case["basis"] == "sto-3g" and nat == 2:
        syms[0] = case["heavy"]
    nel = sum({"H": 1, "Li": 3}[s] for s in syms)
    mol = gto.M(atom=[(s, tuple(x)) for s, x in zip(syms, xyz)], basis=case["basis"], unit="angstrom", spin=nel % 2, verbose=0)
    return mol


def mol_body(ctx, case):
    mol = build_mol(case)
    thr = float(case["thr"])
    nao = mol.nao_nr()
    ctx.case(case, nontrivial=True, classes=[f"mol:nao={nao}", "mol:" + case["basis"], "mol:p-shells" if any(mol.bas_angular(i) > 0 for i in range(mol.nbas)) else "mol:s-only"])
    eri = mol.intor("int2e").reshape(nao * nao, nao * nao)
    try:
        L = pyscf_interface.chunked_cholesky(mol, max_error=thr)
    except Exception as ex:
        ctx.fail(f"chunked:raised-{type(ex).__name__}", case, f"{type(ex).__name__}: {ex}")
        return
    err = float(np.max(np.abs(eri - L.T @ L)))
    tol = thr * (1 + 1e-6) + 1e-9 * float(np.max(np.abs(eri)))
    ctx.err("chunked: max|ERI-LL^T| / tol", err / tol)
    if not err <= tol:
        ctx.fail("chunked:reconstruction", case, f"nao {nao} threshold {thr:g}: {L.shape[0]} vectors, error {err:.3e}")
    # the same matrix through the plain NumPy routine
    L2 = pyscf_interface.modified_cholesky(eri.copy(), thr)
    err2 = float(np.max(np.abs(eri - L2.T @ L2)))
    if not err2 <= tol:
        ctx.fail("numpy:reconstruction:eri", case, f"modified_cholesky on the ERI matrix: error {err2:.3e} > {thr:g}")


SUBCHECKS = [
    SubCheck("numpy_modified_cholesky", body=numpy_body, strategy=numpy_case, examples={"quick": 400, "thorough": 5000}, shards={"quick": 2, "thorough": 4}),
    SubCheck("jax_modified_cholesky", body=jax_body, strategy=jax_case, examples={"quick": 150, "thorough": 1500}, shards={"quick": 3, "thorough": 6}),
    SubCheck("chunked_cholesky_molecules", body=mol_body, strategy=mol_case, examples={"quick": 25, "thorough": 300}, shards={"quick": 2, "thorough": 6}),
]
