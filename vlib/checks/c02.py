"""C02 — local energy equals the mixed estimator <psi_T|H|phi>/<psi_T|phi>."""
import numpy as np

from vlib import env

env.setup()
import hypothesis
from hypothesis import strategies as st

from vlib import gens, measure
from vlib.fockref import selftest as _fock_selftest
from vlib.harness import SubCheck

PROPERTY = "C02"
LEVEL = "exploration"
RULE = (
    "Hypothesis draws trial kind x shape (table, norb <= 4, open shells, empty down channel where admitted) x trial parameters x complex "
    "non-orthonormal walker x Hamiltonian (h0, symmetric h1 - spin-dependent only for uhf/ghf/noci/multislater/UCISD/GCISD on unrestricted walkers -, "
    "1..3 symmetric Cholesky matrices incl. diagonal and zero ones); intermediates always through hamiltonian.build_measurement_intermediates. "
    "Oracle: vdot(psi, H phi)/vdot(psi, phi) with H built in Fock space in the normal-ordered form of the property. Finite-difference (AD) kinds: "
    "additionally the error at eps in {4,2,1}e-3 must shrink quadratically. Cases with |<psi|phi>| < 1e-3 x (sum of absolute terms) are rejected "
    "(counted). Non-trivial = Cholesky vectors non-zero, walker not proportional to the trial, CI amplitudes non-zero; distinct by SHA-1 of inputs."
)
ASSUMPTIONS = [
    "tolerances relative to E_scale = sum|psi_i||(H phi)_i| / |<psi|phi>| times max(1, cond(reference block))^2: 1e-9 for determinant-type kinds, "
    "5e-5 for the hand-coded cisd/cisd_faster/ucisd (complex64/float32 casts in the code), 1e-5 for finite-difference kinds at the default eps 1e-4",
    "restricted-walker entry points are compared with H built from the average of the two one-body matrices (exact for them, as the property states)",
    "lower-case ucisd averages the alpha one-body matrix by design and therefore gets spin-independent h1",
]
TOL = {"det": 1e-9, "hand": 5e-5, "fd": 1e-5}
HAND = {"cisd", "cisd_faster", "ucisd"}


def selftest():
    _fock_selftest()


def tol_class(kind):
    return "fd" if kind in gens.AD_KINDS else ("hand" if kind in HAND else "det")


def _nontrivial(s):
    chol = np.asarray(s.case["ham"]["chol"])
    nrm = np.linalg.norm(s.psi) * np.linalg.norm(s.phi)
    ci_nonzero = all(np.any(np.asarray(s.params[k])) for k in ("ci1", "ci2", "ci1A", "ci2AB", "coeffs") if k in s.params)
    return bool(np.any(chol) and abs(s.ovlp_exact) < 0.999 * nrm and ci_nonzero)


def _hnorm(ham):
    """Crude operator-size scale |h0| + sum|h1| + sum_g (sum|L_g|)^2 (keeps the tolerance meaningful when <H> cancels to ~0)."""
    chol = np.asarray(ham["chol"])
    return abs(float(ham["h0"])) + float(np.sum(np.abs(np.asarray(ham["h1"])))) / 2 + float(np.sum(np.sum(np.abs(chol), axis=(1, 2)) ** 2))


def energy_strategy(tier, shard=0, nshards=1):
    return measure.measurement_case(tier, measure.kinds_for_shard(gens.ALL_KINDS, shard, nshards), with_ham=True)


def _prep(ctx, case, eps=None):
    s = measure.Setup(case, eps=eps)
    if s.cond > measure.COND_MAX:
        ctx.count("skipped:reference-block-ill-conditioned")
        return None
    if not (s.scale > 0 and np.isfinite(s.scale) and abs(s.ovlp_exact) >= 1e-3 * s.scale):
        ctx.count("rejected:overlap-too-small")
        hypothesis.assume(False)
    return s


def energy_body(ctx, case):
    s = _prep(ctx, case)
    if s is None:
        return
    cls = s.classes() + ["chol:" + str(case["ham"].get("chol_kind"))] + (["spin-dependent-h1"] if case.get("spin_dependent_h1") else [])
    ctx.case(case, nontrivial=_nontrivial(s), classes=cls)
    tag = measure.bucket_suffix(s)
    H = s.exact_hamiltonian()
    Hphi = H @ s.phi
    want = np.vdot(s.psi, Hphi) / s.ovlp_exact
    escale = (float(np.sum(np.abs(s.psi) * np.abs(Hphi))) + 1e-3 * _hnorm(case["ham"]) * s.scale) / abs(s.ovlp_exact) * max(1.0, s.cond) ** 2 + 1e-300
    try:
        hd = s.ham_data()
        got = s.lib_energy(hd)
    except Exception as e:
        ctx.fail(f"energy:raised-{type(e).__name__}:{tag}", case, f"{type(e).__name__}: {e}")
        return
    tc = tol_class(s.kind)
    if tc == "fd":
        # round-off of the second difference (o(+e) - 2 o(0) + o(-e)) / e^2 with e = 1e-4: ~ 1e-16 / 1e-8 per Cholesky vector, relative to the overlap terms
        nchol = np.asarray(case["ham"]["chol"]).shape[0]
        escale = escale + 1e-1 * nchol * (s.scale / abs(s.ovlp_exact)) * max(1.0, s.cond) ** 2
    ctx.check_close(f"energy:{tag}", case, f"energy[{s.kind}] ({tc})", got, want, TOL[tc], escale)
    if s.restricted and s.kind not in gens.RESTRICTED_ONLY:
        try:
            un = s.lib_energy(hd, restricted=False)
        except Exception as e:
            ctx.fail(f"energy:raised-{type(e).__name__}:{s.kind}:unrestricted-entry", case, f"{type(e).__name__}: {e}")
            return
        ctx.count("restricted-vs-unrestricted-compared")
        ctx.check_close(f"energy:{s.kind}:unrestricted-entry:equal-spin-blocks", case, f"energy unrestricted entry[{s.kind}] ({tc})", un, want, TOL[tc], escale)
    if s.kind == "cisd":
        # cisd_faster is an additional differential oracle on identical inputs
        s2 = measure.Setup(dict(case, kind="cisd_faster"))
        try:
            got2 = s2.lib_energy(s2.ham_data())
        except Exception as e:
            ctx.fail(f"energy:raised-{type(e).__name__}:cisd_faster", case, f"{type(e).__name__}: {e}")
            return
        ctx.check_close("energy:cisd-vs-cisd_faster", case, "energy cisd - cisd_faster", got2, got, 2 * TOL["hand"], escale)


# ---- finite-difference kinds converge quadratically in their step ----------------------------------
FD_SHAPES = {"multislater": [(3, (2, 1))], "CISD": [(3, (1, 1))], "UCISD": [(3, (2, 1))], "GCISD": [(3, (1, 1))], "CISD_THC": [(3, (1, 1))]}
EPS_LADDER = [4e-3, 2e-3, 1e-3]


def fd_strategy(tier, shard=0, nshards=1):
    kinds = measure.kinds_for_shard(sorted(FD_SHAPES), shard, nshards)
    return measure.measurement_case(tier, kinds, with_ham=True, shapes=FD_SHAPES)


def fd_body(ctx, case):
    s0 = _prep(ctx, case)
    if s0 is None:
        return
    ctx.case(case, nontrivial=_nontrivial(s0), classes=["fd-ladder:" + s0.kind])
    H = s0.exact_hamiltonian()
    Hphi = H @ s0.phi
    want = np.vdot(s0.psi, Hphi) / s0.ovlp_exact
    escale = (float(np.sum(np.abs(s0.psi) * np.abs(Hphi))) + 1e-3 * _hnorm(case["ham"]) * s0.scale) / abs(s0.ovlp_exact) * max(1.0, s0.cond) ** 2 + 1e-300
    errs, cerrs = [], []
    for eps in EPS_LADDER:
        s = measure.Setup(case, eps=eps)
        try:
            got = s.lib_energy(s.ham_data())
        except Exception as e:
            ctx.fail(f"energy-fd:raised-{type(e).__name__}:{s.kind}", case, f"eps={eps}: {type(e).__name__}: {e}")
            return
        errs.append(abs(got - want))
        cerrs.append(np.asarray([complex(got - want)]))
    share = measure.first_order_share(cerrs, EPS_LADDER)
    # quadratic convergence: each halving of eps reduces the error at least threefold, unless it is already at round-off level
    nchol = np.asarray(case["ham"]["chol"]).shape[0]
    floor = 1e-9 * escale + 1e-8 * nchol * (s0.scale / abs(s0.ovlp_exact)) * max(1.0, s0.cond) ** 2
    for a, b, e1, e2 in zip(errs[:-1], errs[1:], EPS_LADDER[:-1], EPS_LADDER[1:]):
        if a < floor:
            ctx.count("fd-ladder:already-exact")
            continue
        if not (b <= a / 3.0 + floor):
            if share <= 0.2:  # higher even order opposing the quadratic term; no term linear in eps (measure.first_order_share)
                ctx.count("fd-ladder:ratio-below-3-but-no-first-order-term")
                continue
            ctx.fail(f"energy-fd:not-quadratic:{s0.kind}", case, f"errors {errs} for eps {EPS_LADDER}: ratio {a / max(b, 1e-300):.2f} < 3 between eps {e1} and {e2} (E_scale {escale:.3e})")
            return
    ctx.err(f"fd error at eps=1e-3 / E_scale [{s0.kind}]", errs[-1] / escale)


SUBCHECKS = [
    SubCheck("energy_vs_fock", body=energy_body, strategy=energy_strategy, examples={"quick": 60, "thorough": 800}, shards={"quick": 12, "thorough": 12}),
    SubCheck("fd_energy_quadratic_in_eps", body=fd_body, strategy=fd_strategy, examples={"quick": 8, "thorough": 80}, shards={"quick": 5, "thorough": 5}, shrink=False),
]
