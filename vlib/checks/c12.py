"""C12 — all sampler entry points compute the same, correct block estimator."""
import itertools

import numpy as np

from vlib import env

env.setup()
import hypothesis
import jax
import jax.numpy as jnp
from hypothesis import strategies as st
from jax import jvp, vjp

from ad_afqmc import sampling
from vlib import samplerlib as sl
from vlib.harness import SubCheck

PROPERTY = "C12"
LEVEL = "exploration"
RULE = (
    "(1) The full option matrix ad_mode {None, forward, reverse, 2rdm} x orbital_rotation x do_sr x walker_type {rhf, uhf} is enumerated and every "
    "combination is called exactly as driver.afqmc calls it (jvp / vjp with the driver's tangent dictionaries) on a Hypothesis-generated problem: an "
    "exception or a non-finite energy is a violation. (2) Hypothesis draws a problem (random symmetric Hamiltonian with a gap, 1-2 Cholesky matrices, "
    "trial converged by repeated optimize to a fixed point), a seed, perturbed initial walkers, n_batch | n_walkers and a block structure; plain, ad, "
    "ad_norot (same block structure) and ad_nosr, ad_nosr_norot (vs plain with one SR block) must return the same energy (rel 1e-10), the same value on a "
    "repeated call (bit-identical) and for every batch count (rel 1e-11). (3) With a single energy block the nosr entry points must return sum w E~ / sum w "
    "recomputed from the returned walkers and weights, E~ = real local energy replaced by e_estimate when further than sqrt(2/dt) from it (cases with "
    "e_estimate displaced so that the cap fires are generated). Non-trivial = >= 2 walkers with distinct weights at measurement time; cap cases counted."
)
ASSUMPTIONS = [
    "trial converged first (problems whose SCF does not reach a fixed point within 25 x 30 iterations are rejected and counted), so orbital relaxation is a no-op at zero coupling",
    "SR entry points are tied to the definition by transitivity through the nosr ones (returned walkers of SR entry points are post-reconfiguration)",
]


def _sampler(c):
    return sampling.sampler(n_prop_steps=int(c["n_prop_steps"]), n_ene_blocks=int(c["n_ene_blocks"]), n_sr_blocks=int(c["n_sr_blocks"]), n_blocks=1)


# ---- (1) option matrix ----------------------------------------------------------------------------------------------
MATRIX = list(itertools.product([None, "forward", "reverse", "2rdm"], [True, False], [True, False], ["rhf", "uhf"]))


@st.composite
def matrix_case(draw, tier, shard=0, nshards=1):
    combos = [m for i, m in enumerate(MATRIX) if i % nshards == shard]
    ad_mode, orot, dosr, wt = draw(st.sampled_from(combos))
    p = draw(sl.problem(walker_types=(wt,), shapes={"rhf": [(3, (1, 1))], "uhf": [(3, (2, 1))]}, n_walkers=(4,), nchol=(2,), dts=(0.01,)))
    k = MATRIX.index((ad_mode, orot, dosr, wt))
    # block structure is a function of the combination (one compilation per combination); numbers vary per example
    p.update({"ad_mode": ad_mode, "orbital_rotation": orot, "do_sr": dosr, "n_prop_steps": 2, "n_ene_blocks": 1 + (k // 2) % 2, "n_sr_blocks": 1 + (k // 4) % 2, "n_batch": (1, 2)[k % 2]})
    return p


def call_like_driver(P, hd, pd, smp, ad_mode, orot, dosr, observable_op):
    """One sampling iteration exactly as driver.afqmc performs it. Returns (energy, derivative-or-None, prop_data)."""
    if ad_mode is None:
        e, pd2 = smp.propagate_phaseless(P.ham, hd, P.prop, pd, P.trial, P.wave_data)
        return e, None, pd2
    name = "ad_1" if ad_mode == "2rdm" else sl.option_entry(orot, dosr)
    f = sl.entry_point(name, smp, P, hd)
    if ad_mode == "forward":
        e, d, pd2 = jvp(f, (0.0, observable_op, pd), (1.0, 0.0 * observable_op, sl.tangent_like(pd)), has_aux=True)
        return e, d, pd2
    if ad_mode == "reverse":
        rdm_op = 0.0 * jnp.asarray(hd["h1"])
        e, fun, pd2 = vjp(f, 1.0, rdm_op, pd, has_aux=True)
        return e, fun(1.0)[1], pd2
    norb = P.norb
    cholm = np.asarray(hd["chol"]).reshape(-1, norb * norb)
    eri = jnp.asarray(np.einsum("gj,gl->jl", cholm, cholm).reshape(norb, norb, norb, norb))
    e, fun, pd2 = vjp(f, 1.0, eri, pd, has_aux=True)
    return e, fun(1.0)[1], pd2


def _two_rdm_domain(ctx, case):
    """The 2-RDM mode re-factorises the two-body operator into as many Cholesky vectors as the Hamiltonian has; that is only defined when those
    vectors are linearly independent (what any Cholesky decomposition produces). The all-zero interaction Hypothesis offers as its simplest
    example is outside that domain (the factorisation of a rank-0 matrix into 2 vectors divides by zero)."""
    if case["ad_mode"] != "2rdm":
        return
    ch = np.asarray(case["chol"], float)
    sv = np.linalg.svd(ch.reshape(ch.shape[0], -1), compute_uv=False)
    if not (sv[-1] > 1e-3 * max(sv[0], 1e-300) and sv[0] > 1e-6):
        ctx.count("rejected:2rdm-needs-linearly-independent-cholesky-vectors")
        hypothesis.assume(False)


def matrix_body(ctx, case):
    P = sl.Problem(case)
    if not P.converged:
        ctx.count("rejected:scf-not-converged")
        hypothesis.assume(False)
    combo = f"ad_mode={case['ad_mode']},orbital_rotation={case['orbital_rotation']},do_sr={case['do_sr']},walker_type={case['walker_type']}"
    _two_rdm_domain(ctx, case)
    ctx.case(case, nontrivial=True, classes=["matrix:" + combo])
    hd = P.ham_data()
    pd = P.prop_data(hd, perturb=0.05)
    smp = _sampler(case)
    obs = jnp.asarray(np.stack([np.diag(np.arange(P.norb, dtype=float))] * 2))
    try:
        e, d, pd2 = call_like_driver(P, hd, pd, smp, case["ad_mode"], bool(case["orbital_rotation"]), bool(case["do_sr"]), obs)
        e = float(e)
    except Exception as ex:
        ctx.fail(f"callable:{combo}", case, f"{type(ex).__name__}: {str(ex)[:300]}")
        return
    if not np.isfinite(e):
        ctx.fail(f"finite-energy:{combo}", case, f"energy {e!r}")
    if d is not None and not np.all(np.isfinite(np.asarray(d))):
        ctx.fail(f"finite-derivative:{combo}", case, "derivative output contains nan/inf")
    if np.asarray(pd2["weights"]).shape != (P.nw,):
        ctx.fail(f"prop-data-shape:{combo}", case, f"weights shape {np.asarray(pd2['weights']).shape}")



# static configurations (each costs one set of XLA compilations); the example budget is spent on numbers
CONFIGS = [
    {"wt": "rhf", "shape": (3, (1, 1)), "nw": 4, "nb": 2, "dt": 0.01, "steps": 3, "ene": 2, "sr": 2},
    {"wt": "uhf", "shape": (3, (2, 1)), "nw": 4, "nb": 1, "dt": 0.01, "steps": 3, "ene": 2, "sr": 2},
    {"wt": "rhf", "shape": (4, (2, 2)), "nw": 6, "nb": 3, "dt": 0.05, "steps": 1, "ene": 1, "sr": 2},
    {"wt": "uhf", "shape": (4, (2, 2)), "nw": 6, "nb": 2, "dt": 0.005, "steps": 2, "ene": 2, "sr": 1},
    {"wt": "uhf", "shape": (3, (1, 1)), "nw": 2, "nb": 1, "dt": 0.05, "steps": 4, "ene": 1, "sr": 1},
    {"wt": "rhf", "shape": (3, (2, 2)), "nw": 2, "nb": 2, "dt": 0.005, "steps": 2, "ene": 3, "sr": 1},
    {"wt": "uhf", "shape": (4, (2, 1)), "nw": 4, "nb": 4, "dt": 0.01, "steps": 2, "ene": 1, "sr": 3},
    {"wt": "rhf", "shape": (3, (1, 1)), "nw": 6, "nb": 1, "dt": 0.5, "steps": 1, "ene": 2, "sr": 1},
]


@st.composite
def configured_problem(draw, tier, shard, nshards):
    cfgs = [c for i, c in enumerate(CONFIGS) if i % nshards == shard] or CONFIGS
    c = draw(st.sampled_from(cfgs))
    p = draw(sl.problem(walker_types=(c["wt"],), shapes={c["wt"]: [c["shape"]]}, n_walkers=(c["nw"],), dts=(c["dt"],), nchol=(2,)))
    p["n_batch"] = c["nb"]
    p.update({"n_prop_steps": c["steps"], "n_ene_blocks": c["ene"], "n_sr_blocks": c["sr"]})
    return p

# ---- (2) agreement across entry points, repeat calls and batch counts ------------------------------------------------------
@st.composite
def agree_case(draw, tier, shard=0, nshards=1):
    p = draw(configured_problem(tier, shard, nshards))
    p["perturb"] = draw(st.sampled_from([0.05, 0.2]))
    # the state the driver hands to the entry point in every block but the first: walkers re-orthonormalised and reconfigured after
    # the previous block, stored overlaps not refreshed since
    p["between_blocks"] = draw(st.sampled_from([None, "after-sr-block", "after-nosr-block", "after-nosr-block"]))
    # weights as dispersed as a long block leaves them (the short blocks affordable here leave them within a few per cent of each other
    # and the comb would be the identity)
    p["block_weights"] = [draw(st.floats(0.05, 3.0)) for _ in range(16)]
    return p


def agree_body(ctx, case):
    P = sl.Problem(case)
    if not P.converged:
        ctx.count("rejected:scf-not-converged")
        hypothesis.assume(False)
    hd = P.ham_data()
    pd0 = P.prop_data(hd, perturb=float(case["perturb"]))
    smp = _sampler(case)
    smp1 = sampling.sampler(n_prop_steps=smp.n_prop_steps, n_ene_blocks=smp.n_ene_blocks, n_sr_blocks=1, n_blocks=1)
    obs = jnp.asarray(np.stack([np.diag(np.arange(P.norb, dtype=float))] * 2))
    tag = case["walker_type"]
    try:
        if case.get("between_blocks"):
            from ad_afqmc import config as _config

            if case["between_blocks"] == "after-nosr-block":
                # without in-block reconfiguration the weights differ, the global comb then really permutes the walkers
                _, pd0 = sl.entry_point("ad_nosr_norot", smp1, P, hd)(0.0, obs, sl.copy_pd(pd0))
            else:
                _, pd0 = smp1.propagate_phaseless(P.ham, hd, P.prop, sl.copy_pd(pd0), P.trial, P.wave_data)
            pd0 = P.prop.orthonormalize_walkers(pd0)
            if case["between_blocks"] == "after-nosr-block":
                bw = np.asarray((list(case["block_weights"]) * (1 + P.nw // 16))[: P.nw], float)
                pd0["weights"] = pd0["weights"] * jnp.asarray(bw)
            w_before = np.asarray(pd0["walkers"] if not isinstance(pd0["walkers"], list) else pd0["walkers"][0])
            pd0 = P.prop.stochastic_reconfiguration_global(pd0, _config.not_MPI().COMM_WORLD)
            w_after = np.asarray(pd0["walkers"] if not isinstance(pd0["walkers"], list) else pd0["walkers"][0])
            ctx.count("agree:state-" + str(case["between_blocks"]) + (":walkers-permuted" if not np.array_equal(w_before, w_after) else ":identity-comb"))
        e_plain, pd_plain = smp.propagate_phaseless(P.ham, hd, P.prop, sl.copy_pd(pd0), P.trial, P.wave_data)
        e_plain2, _ = smp.propagate_phaseless(P.ham, hd, P.prop, sl.copy_pd(pd0), P.trial, P.wave_data)
        e_plain1, pd_plain1 = smp1.propagate_phaseless(P.ham, hd, P.prop, sl.copy_pd(pd0), P.trial, P.wave_data)
        res = {}
        for name, s_ in (("ad", smp), ("ad_norot", smp), ("ad_nosr", smp1), ("ad_nosr_norot", smp1)):
            res[name] = sl.entry_point(name, s_, P, hd)(0.0, obs, sl.copy_pd(pd0))
    except Exception as ex:
        ctx.case(case, nontrivial=False)
        ctx.fail(f"agree:raised-{type(ex).__name__}:{tag}", case, f"{type(ex).__name__}: {str(ex)[:300]}")
        return
    w = np.asarray(res["ad_nosr"][1]["weights"])
    ctx.case(case, nontrivial=len(set(np.round(w[w > 0], 12).tolist())) >= 2, classes=["agree:" + tag, f"n_batch={P.nb}", f"blocks={case['n_sr_blocks']}x{case['n_ene_blocks']}x{case['n_prop_steps']}"])
    e_plain, e_plain1 = float(e_plain), float(e_plain1)
    if not (np.isfinite(e_plain) and np.isfinite(e_plain1)):
        # the generated state's population died (all weights clipped to zero): 0/0 block energies cannot be compared (NaN != NaN); whether
        # weights may die is C09's question, not a disagreement between entry points
        ctx.count("skipped:reference-block-energy-not-finite")
        return
    if float(e_plain2) != e_plain:
        ctx.fail(f"agree:not-reproducible:{tag}", case, f"two identical calls returned {e_plain!r} and {float(e_plain2)!r}")
    sc = max(1.0, abs(e_plain))
    for name, ref in (("ad", e_plain), ("ad_norot", e_plain), ("ad_nosr", e_plain1), ("ad_nosr_norot", e_plain1)):
        ctx.check_close(f"agree:{name}-vs-plain:{tag}", case, f"energy {name} - plain [{tag}]", float(res[name][0]), ref, 1e-10, sc)
    # the two entry points without reconfiguration differ only in the orbital relaxation (the identity for a converged trial): handed the *same*
    # sampler - including one whose n_sr_blocks is not 1, as the driver does when do_sr is off - they must run the same blocks
    if smp.n_sr_blocks > 1:
        try:
            ra = sl.entry_point("ad_nosr", smp, P, hd)(0.0, obs, sl.copy_pd(pd0))
            rb = sl.entry_point("ad_nosr_norot", smp, P, hd)(0.0, obs, sl.copy_pd(pd0))
        except Exception as ex:
            ctx.fail(f"agree:raised-{type(ex).__name__}:{tag}", case, f"{type(ex).__name__}: {str(ex)[:300]}")
            return
        ctx.count("agree:nosr-pair-with-n_sr_blocks>1")
        ctx.check_close(f"agree:ad_nosr-vs-ad_nosr_norot:same-sampler:{tag}", case, f"energy ad_nosr - ad_nosr_norot, n_sr_blocks={smp.n_sr_blocks} [{tag}]", float(ra[0]), float(rb[0]), 1e-10, sc)
        ctx.check_close(f"agree:ad_nosr-vs-ad_nosr_norot:same-sampler:weights:{tag}", case, f"weights ad_nosr - ad_nosr_norot, n_sr_blocks={smp.n_sr_blocks} [{tag}]", np.asarray(ra[1]["weights"]), np.asarray(rb[1]["weights"]), 1e-10, float(np.max(np.abs(np.asarray(rb[1]["weights"])))) + 1e-300)
    for name, refpd in (("ad", pd_plain), ("ad_norot", pd_plain)):
        ctx.check_close(f"agree:{name}-weights-vs-plain:{tag}", case, f"weights {name} - plain [{tag}]", np.asarray(res[name][1]["weights"]), np.asarray(refpd["weights"]), 1e-10, float(np.max(np.abs(np.asarray(refpd["weights"])))) + 1e-300)
    # batch-count independence
    for nb in [d for d in range(1, P.nw + 1) if P.nw % d == 0 and d != P.nb][: (1 if ctx.tier == "quick" else 3)]:
        Pb = sl.Problem(case, n_batch=nb)
        hdb = Pb.ham_data()
        pdb = sl.copy_pd(pd0)
        try:
            eb, _ = smp.propagate_phaseless(Pb.ham, hdb, Pb.prop, pdb, Pb.trial, Pb.wave_data)
        except Exception as ex:
            ctx.fail(f"agree:n_batch-raised-{type(ex).__name__}:{tag}", case, f"n_batch={nb}: {type(ex).__name__}: {str(ex)[:300]}")
            return
        ctx.count("n_batch-pairs-compared")
        ctx.check_close(f"agree:n_batch-dependence:{tag}", case, f"energy n_batch={nb} - n_batch={P.nb} [{tag}]", float(eb), e_plain, 1e-11, sc)


# ---- (3) single-block definition ---------------------------------------------------------------------------------------------
@st.composite
def define_case(draw, tier, shard=0, nshards=1):
    p = draw(configured_problem(tier, shard, nshards))
    p.update({"n_ene_blocks": 1, "n_sr_blocks": 1, "perturb": draw(st.sampled_from([0.05, 0.3])),
              "e_est_offset": draw(st.sampled_from([0.0, 0.0, 5.0, -30.0, 1.0])), "entry": ("ad_nosr", "ad_nosr_norot")[shard % 2] if nshards > 1 else draw(st.sampled_from(["ad_nosr", "ad_nosr_norot"]))})
    return p


def define_body(ctx, case):
    P = sl.Problem(case)
    if not P.converged:
        ctx.count("rejected:scf-not-converged")
        hypothesis.assume(False)
    hd = P.ham_data()
    pd0 = P.prop_data(hd, perturb=float(case["perturb"]))
    pd0["e_estimate"] = pd0["e_estimate"] + float(case["e_est_offset"])
    smp = _sampler(case)
    obs = jnp.asarray(np.stack([np.diag(np.arange(P.norb, dtype=float))] * 2))
    tag = f"{case['entry']}:{case['walker_type']}"
    try:
        e, pd = sl.entry_point(case["entry"], smp, P, hd)(0.0, obs, sl.copy_pd(pd0))
        el = np.real(np.asarray(P.trial.calc_energy(pd["walkers"], hd, P.wave_data)))
    except Exception as ex:
        ctx.case(case, nontrivial=False)
        ctx.fail(f"definition:raised-{type(ex).__name__}:{tag}", case, f"{type(ex).__name__}: {str(ex)[:300]}")
        return
    w = np.asarray(pd["weights"])
    e_est = float(np.asarray(pd0["e_estimate"]))
    cap = np.sqrt(2.0 / P.dt)
    capped = np.abs(el - e_est) > cap
    near = np.abs(np.abs(el - e_est) - cap) < 1e-9
    ctx.case(case, nontrivial=len(set(np.round(w[w > 0], 12).tolist())) >= 2, classes=["definition:" + tag] + (["cap-replaces-a-sample"] if capped.any() else ["cap-inactive"]) + (["some-walker-dead"] if np.any(w == 0) else []))
    if near.any() or np.sum(w) <= 0 or not np.all(np.isfinite(el[w > 0])):
        ctx.count("skipped:at-cap-boundary-or-no-weight")
        return
    et = np.where(capped, e_est, el)
    et = np.where(w > 0, et, 0.0)
    want = float(np.sum(w * et) / np.sum(w))
    ctx.check_close(f"definition:block-energy:{tag}", case, f"block energy - sum(w E~)/sum(w) [{tag}]", float(e), want, 1e-10, max(1.0, abs(want)))
    # second pass: the walkers (hence their local energies) do not depend on e_estimate, so the running estimate can be placed just inside /
    # just outside the sqrt(2/dt) window of a chosen walker - the cap must follow the REAL local energy, to the last digit
    elc = np.asarray(P.trial.calc_energy(pd["walkers"], hd, P.wave_data))
    k = int(np.argmax(np.abs(elc.imag) * (w > 0)))
    for side, eps in ((+1, 1e-3), (-1, 1e-3), (+1, -1e-3), (+1, 1e-6)):
        pd1 = sl.copy_pd(pd0)
        e_edge = float(elc[k].real) + side * cap * (1.0 - eps)
        pd1["e_estimate"] = jnp.asarray(e_edge)
        try:
            e2, pd2 = sl.entry_point(case["entry"], smp, P, hd)(0.0, obs, pd1)
        except Exception as ex:
            ctx.fail(f"definition:raised-{type(ex).__name__}:{tag}", case, f"{type(ex).__name__}: {str(ex)[:300]}")
            return
        w2 = np.asarray(pd2["weights"])
        if np.sum(w2) <= 0 or not np.all(np.isfinite(w2)):
            continue
        el2 = np.real(np.asarray(P.trial.calc_energy(pd2["walkers"], hd, P.wave_data)))
        d2 = np.abs(el2 - e_edge)
        if np.any(np.abs(d2 - cap) < 1e-9 * cap):
            continue
        et2 = np.where(d2 > cap, e_edge, el2)
        et2 = np.where(w2 > 0, et2, 0.0)
        want2 = float(np.sum(w2 * et2) / np.sum(w2))
        ctx.count("cap-edge-cases")
        ctx.check_close(f"definition:block-energy-at-cap-edge:{tag}", case, f"block energy with e_estimate {eps:+.0e} inside the window edge of walker {k} [{tag}]", float(e2), want2, 1e-10, max(1.0, abs(want2)))
    # overlaps handed back are those of the returned walkers
    ov = np.asarray(P.trial.calc_overlap(pd["walkers"], P.wave_data))
    ctx.check_close(f"definition:returned-overlaps:{tag}", case, "returned overlaps - recomputed", np.asarray(pd["overlaps"]), ov, 1e-10, float(np.max(np.abs(ov))) + 1e-300)
    nk = float(np.asarray(pd["n_killed_walkers"]))
    if not (0.0 <= nk <= 1.0):
        ctx.fail(f"definition:killed-fraction:{tag}", case, f"n_killed_walkers = {nk!r}")


# ---- (4) the option matrix through complete driver runs (thorough tier; quick runs two combinations) ---------------------------------
@st.composite
def drv_case(draw, tier, shard=0, nshards=1):
    combos = [m for i, m in enumerate(MATRIX) if i % nshards == shard]
    if tier == "quick":
        combos = combos[:1]
    ad_mode, orot, dosr, wt = draw(st.sampled_from(combos))
    p = draw(sl.problem(walker_types=(wt,), shapes={"rhf": [(3, (1, 1))], "uhf": [(3, (2, 1))]}, n_walkers=(4,), nchol=(2,), dts=(0.01,)))
    p["n_batch"] = 1
    p.update({"ad_mode": ad_mode, "orbital_rotation": orot, "do_sr": dosr})
    return p


def drv_body(ctx, case):
    from vlib import runs

    P = sl.Problem(case)
    if not P.converged:
        ctx.count("rejected:scf-not-converged")
        hypothesis.assume(False)
    combo = f"ad_mode={case['ad_mode']},orbital_rotation={case['orbital_rotation']},do_sr={case['do_sr']},walker_type={case['walker_type']}"
    _two_rdm_domain(ctx, case)
    ctx.case(case, nontrivial=True, classes=["driver-matrix:" + combo])
    smp = sampling.sampler(n_prop_steps=2, n_ene_blocks=1, n_sr_blocks=2, n_blocks=3)
    opts = runs.default_options(seed=int(case["seed"]) % 100000, n_walkers=P.nw, dt=P.dt, n_prop_steps=2, n_ene_blocks=1, n_sr_blocks=2, n_blocks=3, walker_type=case["walker_type"],
                                ad_mode=case["ad_mode"], orbital_rotation=bool(case["orbital_rotation"]), do_sr=bool(case["do_sr"]))
    o = np.diag(np.arange(P.norb, dtype=float))
    obs = [np.stack([o, o]), 0.0] if case["ad_mode"] in ("forward", "reverse") else None
    try:
        out = runs.run_driver(P.ham_data0, P.ham, P.prop, P.trial, P.wave_data, smp, obs, opts)
        out2 = runs.run_driver(P.ham_data0, P.ham, P.prop, P.trial, P.wave_data, smp, obs, opts)
    except Exception as ex:
        ctx.fail(f"driver-callable:{combo}", case, f"{type(ex).__name__}: {str(ex)[:300]}")
        return
    raw, raw2 = out["samples_raw"], out2["samples_raw"]
    if raw is None or raw.shape != (3, 3) or not np.all(np.isfinite(raw)):
        ctx.fail(f"driver-samples:{combo}", case, f"samples_raw.dat: {None if raw is None else raw.tolist()}")
        return
    if not np.array_equal(raw, raw2):
        ctx.fail(f"driver-not-reproducible:{combo}", case, "two driver runs with the same seed wrote different samples_raw.dat")
    if out["e"] is None or not np.isfinite(out["e"]):
        ctx.fail(f"driver-energy:{combo}", case, f"returned energy {out['e']!r}")


# ---- the driver's own choice of entry point ------------------------------------------------------------------------------------
SELECT_COMBOS = [("forward", True), ("reverse", False), ("forward", False), ("reverse", True)]


@st.composite
def select_case(draw, tier, shard=0, nshards=1):
    combos = [c for i, c in enumerate(SELECT_COMBOS) if i % nshards == shard] or SELECT_COMBOS
    ad_mode, dosr = draw(st.sampled_from(combos))
    wt = draw(st.sampled_from(["rhf", "uhf"]))
    p = draw(sl.problem(walker_types=(wt,), shapes={"rhf": [(3, (1, 1))], "uhf": [(3, (2, 1))]}, n_walkers=(6,), nchol=(2,), dts=(0.05,), chol_scale=(0.5, 0.8)))
    p["n_batch"] = 1
    p.update({"ad_mode": ad_mode, "do_sr": dosr})
    return p


def select_body(ctx, case):
    """For a converged trial the orbital relaxation is the identity, so what driver.afqmc writes must not depend on the orbital_rotation
    option; with in-block reconfiguration it must also equal what a run without AD writes. (The entry points themselves are compared in
    entry_points_agree; this is about which of them the driver picks for an option combination.)"""
    from vlib import runs

    P = sl.Problem(case)
    if not P.converged:
        ctx.count("rejected:scf-not-converged")
        hypothesis.assume(False)
    combo = f"ad_mode={case['ad_mode']},do_sr={case['do_sr']},walker_type={case['walker_type']}"
    ctx.case(case, nontrivial=True, classes=["driver-selection:" + combo])
    smp = sampling.sampler(n_prop_steps=4, n_ene_blocks=2, n_sr_blocks=2, n_blocks=3)
    o = np.diag(np.arange(P.norb, dtype=float))
    obs = [np.stack([o, o]), 0.0]
    runs_ = {}
    variants = [("rotation-on", case["ad_mode"], True), ("rotation-off", case["ad_mode"], False)] + ([("no-ad", None, True)] if case["do_sr"] else [])
    try:
        for label, mode, orot in variants:
            opts = runs.default_options(seed=int(case["seed"]) % 100000, n_walkers=P.nw, dt=P.dt, n_prop_steps=4, n_ene_blocks=2, n_sr_blocks=2, n_blocks=3, walker_type=case["walker_type"],
                                        ad_mode=mode, orbital_rotation=orot, do_sr=bool(case["do_sr"]))
            runs_[label] = runs.run_driver(P.ham_data0, P.ham, P.prop, P.trial, P.wave_data, smp, obs if mode else None, opts)["samples_raw"]
    except Exception as ex:
        ctx.fail(f"driver-selection:raised-{type(ex).__name__}:{combo}", case, f"{type(ex).__name__}: {str(ex)[:300]}")
        return
    ref = runs_["rotation-on"]
    if ref is None:
        ctx.fail(f"driver-selection:samples:{combo}", case, "no samples_raw.dat written")
        return
    if np.any(ref[:, 0] == 0) or not np.all(np.isfinite(ref[:, :2])):
        # the whole population died (every weight clipped to 0 at this time step and interaction strength; without reconfiguration that is
        # final): the block energy is 0/0 and there is nothing to compare - C09's business, not a question of which entry point ran
        ctx.count("skipped:population-died-in-reference-run")
        return
    for label in [v[0] for v in variants[1:]]:
        other = runs_[label]
        if other is None or other.shape != ref.shape:
            ctx.fail(f"driver-selection:samples:{combo}", case, f"{label}: samples_raw.dat has shape {None if other is None else other.shape}, expected {ref.shape}")
            return
        ctx.check_close(f"driver-selection:{label}-vs-rotation-on:energies:{combo}", case, f"block energies {label} - rotation-on [{combo}]", other[:, 1], ref[:, 1], 1e-5, max(1.0, float(np.max(np.abs(ref[:, 1])))))
        ctx.check_close(f"driver-selection:{label}-vs-rotation-on:weights:{combo}", case, f"block weights {label} - rotation-on [{combo}]", other[:, 0], ref[:, 0], 1e-5, max(1.0, float(np.max(np.abs(ref[:, 0])))))


SUBCHECKS = [
    SubCheck("option_matrix_callable", body=matrix_body, strategy=matrix_case, examples={"quick": 4, "thorough": 24}, shards={"quick": 16, "thorough": 16}, shrink=False),
    SubCheck("entry_points_agree", body=agree_body, strategy=agree_case, examples={"quick": 6, "thorough": 60}, shards={"quick": 4, "thorough": 8}, shrink=False),
    SubCheck("driver_option_matrix", body=drv_body, strategy=drv_case, examples={"quick": 1, "thorough": 4}, shards={"quick": 2, "thorough": 16}, shrink=False),
    SubCheck("driver_selects_entry_point", body=select_body, strategy=select_case, examples={"quick": 1, "thorough": 6}, shards={"quick": 4, "thorough": 8}, shrink=False),
    SubCheck("single_block_definition", body=define_body, strategy=define_case, examples={"quick": 12, "thorough": 120}, shards={"quick": 4, "thorough": 8}, shrink=False),
]
