"""C04 — one phaseless step is an exact importance-sampling reweighting of exp(-dt H)."""
import numpy as np

from vlib import env

env.setup()
import hypothesis
import jax.numpy as jnp
from hypothesis import strategies as st

from ad_afqmc import hamiltonian as hmod
from ad_afqmc import propagation
from vlib import gens, measure, quad
from vlib.fockref import fock, selftest as _fock_selftest
from vlib.harness import SubCheck

PROPERTY = "C04"
LEVEL = "exploration"
RULE = (
    "Hypothesis draws a trial kind usable for propagation (restricted propagator: rhf, cisd, CISD; unrestricted: uhf, ghf, noci, ucisd, multislater, UCISD), "
    "a shape with norb <= 3 (Fock dimension <= 64), trial parameters, a complex walker, a Hamiltonian (h0, symmetric h1 - spin-dependent for unrestricted "
    "propagators -, 1..3 symmetric Cholesky matrices), an arbitrary symmetric rdm1 for the mean-field shift, E_shift and initial weights. The Gaussian "
    "average is taken exactly: the tensor Gauss-Hermite nodes are fed to the public propagate() as the auxiliary fields of a batch of identical walkers, "
    "the guarded hook returns the complex importance function I(x) and theta. Oracle 1: R(dt) = |sum_k w_k I(x_k) Slater(phi'_k)/ovlp'_k - "
    "expm(-dt (H - E_shift)) Slater(phi)/ovlp| / |ref| in the Fock model for dt in {0.04, 0.02, 0.01, 0.005}: R(dt)/R(dt/2) >= 3 on the two finest pairs "
    "and R(0.005) small. Oracle 2: returned weights = w_old * f, f = |I| cos(theta) if inside [1e-3, 100] else 0 (NaN -> 0), zeroed again if the product "
    "exceeds 100, theta recomputed from public pieces (force bias, mean-field shifts, old and new overlaps). Non-trivial = rdm1 differs from the trial's own, "
    ">= 2 non-commuting Cholesky matrices, complex force bias; batches containing a node with cos(theta) < 0 and a clipped factor are counted."
)
ASSUMPTIONS = [
    "field average exact up to Gauss-Hermite error for 12 (nchol <= 2) / 10 (nchol = 3) nodes per field; Cholesky matrices scaled so that sqrt(dt) |L| |x_max| <= ~1.5 (quad.selftest verifies 1e-9 accuracy there)",
    "the complex importance function is observed through the guarded hook in propagate() (ANKIT76_AD_AFQMC_VERIF=1 + pre-seeded prop_data keys); a wrong force bias is C03's business: the identity holds for any shift used consistently",
    "R(0.005) bound: C * dt^2 with C = 50 * (1 + |H|_1)^3 (generous; a first-order error gives ratio ~2 and fails the ratio clause instead)",
]
DTS = [0.04, 0.02, 0.01, 0.005]
KINDS_R = ["rhf", "cisd", "CISD"]
KINDS_U = ["uhf", "ghf", "noci", "ucisd", "multislater", "UCISD"]
QUICK_KINDS = ["uhf", "rhf", "noci", "cisd", "ucisd", "ghf"]
SHAPES = {
    "rhf": [(3, (1, 1)), (3, (2, 2)), (2, (1, 1))],
    "cisd": [(3, (1, 1)), (3, (2, 2))],
    "CISD": [(3, (1, 1))],
    "uhf": [(3, (2, 1)), (3, (1, 1)), (2, (1, 1)), (3, (2, 0))],
    "ghf": [(3, (2, 1)), (2, (1, 1))],
    "noci": [(3, (2, 1)), (3, (1, 1))],
    "ucisd": [(3, (2, 1)), (3, (1, 1))],
    "multislater": [(3, (2, 1))],
    "UCISD": [(3, (2, 1))],
}


def selftest():
    _fock_selftest()
    quad.selftest()


@st.composite
def step_case(draw, tier, shard=0, nshards=1):
    kinds = QUICK_KINDS if tier == "quick" else KINDS_R + KINDS_U
    kind = draw(st.sampled_from(measure.kinds_for_shard(kinds, shard, nshards)))
    norb, nelec = draw(st.sampled_from(SHAPES[kind][:2] if tier == "quick" else SHAPES[kind]))
    restricted = kind in KINDS_R
    params = draw(gens.trial_params(kind, norb, nelec, True if kind in ("rhf", "uhf", "ghf", "noci") else None))
    w = draw(gens.walker(norb, nelec, restricted=restricted, frame=gens.reference_frame(kind, norb, nelec, params)))
    nchol = draw(st.sampled_from([1, 2, 2, 2, 3] if tier == "thorough" else [1, 2, 2]))
    ham = draw(gens.hamiltonian(norb, spin_dependent=(not restricted) and draw(st.booleans()), nchol=nchol, chol_kinds=("generic", "generic", "generic", "generic", "diagonal", "zero")))
    r = draw(gens.real((2, norb, norb)))
    rdm1 = (r + r.transpose(0, 2, 1)) / 2 + np.stack([np.eye(norb) * 0.5] * 2)
    probes = draw(gens.real((8, nchol), -1.0, 1.0))
    probes = np.sign(probes + 1e-12) * (5.0 + 10.0 * np.abs(probes))
    return {
        "probes": probes,
        "kind": kind, "norb": norb, "nelec": list(nelec), "params": params, "walker": w, "restricted": restricted, "ham": ham,
        "rdm1": rdm1, "e_shift": draw(st.sampled_from([0.0, 0.37, -2.5, 70.0, -190.0, 130.0])), "w0": draw(st.sampled_from([1.0, 1.0, 0.02, 40.0, 99.0])),
    }


def _setup_lib(case, dt, nw):
    kind, norb, nelec = case["kind"], int(case["norb"]), (int(case["nelec"][0]), int(case["nelec"][1]))
    trial, wd, extra = gens.build_trial(kind, norb, nelec, case["params"])
    wd = dict(wd)
    wd["rdm1"] = jnp.asarray(np.asarray(case["rdm1"], float))
    H = hmod.hamiltonian(norb)
    ham = case["ham"]
    chol = np.asarray(ham["chol"], float) * 0.5
    hd = {"h0": float(ham["h0"]), "h1": jnp.asarray(np.asarray(ham["h1"], float)), "chol": jnp.asarray(chol.reshape(-1, norb * norb)), "ene0": 0.0}
    prop = (propagation.propagator_restricted if case["restricted"] else propagation.propagator_unrestricted)(dt=dt, n_walkers=nw)
    hd = H.build_measurement_intermediates(hd, trial, wd)
    hd = H.build_propagation_intermediates(hd, prop, trial, wd)
    return trial, wd, hd, prop, chol, extra


def step_body(ctx, case):
    kind, norb, nelec = case["kind"], int(case["norb"]), (int(case["nelec"][0]), int(case["nelec"][1]))
    restricted = bool(case["restricted"])
    s = measure.Setup(case)
    if s.cond > 1e4 or not (s.scale > 0 and abs(s.ovlp_exact) >= 1e-3 * s.scale):
        ctx.count("rejected:walker-ill-conditioned-for-this-trial")
        hypothesis.assume(False)
    ham = case["ham"]
    chol = np.asarray(ham["chol"], float) * 0.5
    nchol = chol.shape[0]
    h1 = np.asarray(ham["h1"], float)
    if restricted:
        h1 = np.stack([(h1[0] + h1[1]) / 2] * 2)
    F = fock(norb)
    Hm = F.hamiltonian(float(ham["h0"]), h1, chol)
    Es = float(case["e_shift"])
    idx = F.sector(*nelec)
    phi = s.phi
    nq = 12 if nchol <= 2 else 10
    x, wq = quad.nodes_weights(nchol, nq)
    # probe rows with large field values (weight 0 in the quadrature): they drive |I| cos(theta) across both edges of the window
    pr = np.asarray(case.get("probes", np.zeros((0, nchol))), float).reshape(-1, nchol) if "probes" in case else np.zeros((0, nchol))
    x = np.concatenate([x, pr], axis=0)
    wq = np.concatenate([wq, np.zeros(len(pr))])
    nw = len(x)
    comm = max((np.linalg.norm(chol[a] @ chol[b] - chol[b] @ chol[a]) for a in range(nchol) for b in range(nchol)), default=0.0)
    trial0, wd0, hd0, _, _, _ = _setup_lib(case, 0.01, 1)
    try:
        own = np.asarray(trial0.get_rdm1({k: v for k, v in wd0.items() if k != "rdm1"}))
        rdm_differs = bool(np.max(np.abs(own - np.asarray(case["rdm1"]))) > 1e-3)
    except Exception:
        rdm_differs = True
    ctx.case(case, nontrivial=rdm_differs and nchol >= 2 and comm > 1e-6, classes=["step:" + kind, f"nchol={nchol}", "propagator:" + ("restricted" if restricted else "unrestricted"), f"w0={case['w0']}"])
    R, RV = [], []
    hnorm = abs(float(ham["h0"])) + float(np.sum(np.abs(h1))) / 2 + float(np.sum(np.sum(np.abs(chol), axis=(1, 2)) ** 2))
    for dt in DTS:
        try:
            trial, wd, hd, prop, _, _ = _setup_lib(case, dt, nw)
            if restricted:
                walkers = jnp.asarray(np.tile(s.up, (nw, 1, 1)))
            else:
                walkers = [jnp.asarray(np.tile(s.up, (nw, 1, 1))), jnp.asarray(np.tile(s.dn, (nw, 1, 1)))]
            ov_old = np.asarray(trial.calc_overlap(walkers, wd))
            fb = np.asarray(trial.calc_force_bias(walkers, hd, wd))
            pd = {
                "walkers": walkers, "weights": jnp.full((nw,), float(case["w0"])), "overlaps": jnp.asarray(ov_old),
                "e_estimate": jnp.asarray(0.123), "pop_control_ene_shift": jnp.asarray(Es),
                "verif_imp_fun": jnp.zeros((nw,), complex), "verif_theta": jnp.zeros((nw,)),
            }
            out = prop.propagate(trial, hd, pd, jnp.asarray(x), wd)
        except Exception as e:
            ctx.fail(f"step:raised-{type(e).__name__}:{kind}", case, f"dt={dt}: {type(e).__name__}: {e}")
            return
        I = np.asarray(out["verif_imp_fun"])
        theta = np.asarray(out["verif_theta"])
        ov_new = np.asarray(out["overlaps"])
        if restricted:
            Wu = np.asarray(out["walkers"])
            Wd = Wu[:, :, : nelec[1]]
        else:
            Wu, Wd = np.asarray(out["walkers"][0]), np.asarray(out["walkers"][1])
        if not np.any(I):
            ctx.fail("step:hook-inactive", case, "verification hook did not fill verif_imp_fun (is ANKIT76_AD_AFQMC_VERIF=1 and the hook commit present?)")
            return
        # ---- oracle 2: the applied weight ----------------------------------------------------------------
        mf = np.asarray(hd["mf_shifts"])
        fs = -np.sqrt(dt) * (1j * fb - mf)
        sf = x - fs
        shift_term = np.sum(sf * mf, axis=1)
        theta_ref = np.angle(np.exp(-np.sqrt(dt) * shift_term) * ov_new / ov_old)
        dth = np.abs(np.angle(np.exp(1j * (theta - theta_ref))))
        if np.max(dth) > 1e-8:
            ctx.fail(f"weight:theta-definition:{kind}", case, f"dt={dt}: theta differs from arg(overlap ratio x mean-field phase) by {np.max(dth):.3e}")
            return
        f = np.abs(I) * np.cos(theta)
        near_edge = (np.abs(f - 1e-3) < 1e-12) | (np.abs(f - 100.0) < 1e-9) | (np.abs(f * float(case["w0"]) - 100.0) < 1e-9)
        f = np.where(np.isnan(f), 0.0, f)
        f = np.where(f < 1e-3, 0.0, f)
        f = np.where(f > 100.0, 0.0, f)
        w_ref = f * float(case["w0"])
        w_ref = np.where(w_ref > 100.0, 0.0, w_ref)
        w_got = np.asarray(out["weights"])
        bad = (np.abs(w_got - w_ref) > 1e-10 * np.maximum(1.0, np.abs(w_ref))) & ~near_edge
        if np.iscomplexobj(w_got) or bad.any():
            k = int(np.argmax(bad)) if bad.any() else 0
            ctx.fail(f"weight:rule:{kind}", case, f"dt={dt} node {k}: weight {w_got[k]!r}, |I| cos(theta) rule gives {w_ref[k]!r} (|I|={abs(I[k]):.6g}, theta={theta[k]:.6g}, w_old={case['w0']})")
            return
        if np.any(np.cos(theta) < 0):
            ctx.count("batch-has-negative-cos-theta")
        if np.any((w_ref == 0) & (np.cos(theta) > 0)):
            ctx.count("batch-has-clipped-factor")
        fr = np.abs(I) * np.cos(theta)
        if np.any(fr > 100.0):
            ctx.count("batch-has-factor-above-100")
        if np.any((fr > 10.0) & (fr <= 100.0)):
            ctx.count("batch-has-factor-in-(10,100]")
        if np.any((fr > 0) & (fr < 1e-3)):
            ctx.count("batch-has-factor-below-1e-3")
        if np.any((fr * float(case["w0"]) > 100.0) & (fr <= 100.0)):
            ctx.count("batch-has-product-above-100")
        # ---- oracle 1: field average of I(x) |phi'>/ovlp' ------------------------------------------------
        acc = np.zeros(F.dim, complex)
        for k in range(nw):
            acc += wq[k] * I[k] * F.slater(Wu[k], Wd[k]) / ov_new[k]
        ref = F.expm_apply(-dt * (Hm - Es * __import__("scipy.sparse").sparse.identity(F.dim, format="csr")), phi, idx) / ov_old[0]
        R.append(float(np.linalg.norm(acc - ref) / np.linalg.norm(ref)))
        RV.append((acc - ref) / np.linalg.norm(ref))
    ctx.err(f"R(dt=0.005) [{kind}]", R[-1])
    share = measure.first_order_share(RV, DTS)
    for a, b, d in ((R[1], R[2], 0.02), (R[2], R[3], 0.01)):
        if a < 1e-11:
            ctx.count("exact-within-roundoff")
            continue
        if not (a / max(b, 1e-300) >= 3.0):
            # "each time a small dt is halved": where a cubic term opposes the quadratic one the ratio of two norms dips below 3 although
            # nothing is first order; the Richardson estimate of the linear coefficient (from the residual vectors) tells the two apart
            if share <= 0.2:
                ctx.count("ratio-below-3-but-no-first-order-term(cubic-crossover)")
                continue
            ctx.fail(f"average:not-second-order:{kind}:{'restricted' if restricted else 'unrestricted'}", case, f"residuals R(dt) = {R} for dt = {DTS}: R({d})/R({d / 2}) = {a / max(b, 1e-300):.2f} < 3 and a term linear in dt explains {share:.0%} of R({DTS[-1]})")
            return
    bound = 50.0 * (1.0 + hnorm) ** 3 * DTS[-1] ** 2
    if not R[-1] <= bound:
        ctx.fail(f"average:residual-too-large:{kind}", case, f"R(0.005) = {R[-1]:.3e} > {bound:.3e}; residuals {R}")


SUBCHECKS = [
    SubCheck("step_average_and_weight_rule", body=step_body, strategy=step_case, examples={"quick": 5, "thorough": 60}, shards={"quick": 6, "thorough": 9}, shrink=False),
]
