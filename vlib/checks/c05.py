"""C05 — free-projection step averages to exp(-dt (H - ene0)) with exact norm bookkeeping."""
import math

import numpy as np
import scipy.linalg

from vlib import env

env.setup()
import hypothesis
import jax
import jax.numpy as jnp
from hypothesis import strategies as st

from ad_afqmc import hamiltonian as hmod
from ad_afqmc import propagation, sampling
from vlib import gens, measure, quad
from vlib.fockref import fock, selftest as _fock_selftest
from vlib.harness import SubCheck

PROPERTY = "C05"
LEVEL = "exploration"
RULE = (
    "Hypothesis draws a trial (uhf, noci, multislater), a shape with both spins present (norb <= 3), a complex walker, a Hamiltonian with 1..3 Cholesky "
    "matrices and spin-dependent h1, an arbitrary symmetric rdm1 for the shift, ene0, n_exp_terms in {4, 6, 10}, and for the bookkeeping clause a sequence "
    "of 1..3 field arrays (values up to |x| = 4). (a) tensor Gauss-Hermite average of norms_k Slater(walkers_k) after one public propagate_free call vs "
    "expm(-dt (H - ene0)) Slater(phi) in the Fock model for dt in {0.04, 0.02, 0.01, 0.005}: ratio >= 3 on the two finest pairs; (b) per field sample, "
    "the un-normalised product exp_h1 expm(i sqrt(dt) x.L) exp_h1 (exact scipy exponential, public intermediates) times the scalar constants, applied k "
    "times, equals norms x Slater(Q) within the Taylor remainder bound; stored overlaps / normed_overlaps equal the Fock overlaps of the un-normalised / "
    "orthonormal state; Q has orthonormal columns; (c) _block_scan_free energy = sum E_L ovlp / sum ovlp recomputed from the returned data. "
    "Non-trivial = >= 2 non-commuting Cholesky matrices and rdm1 different from the trial's own (a); k >= 2 steps (b)."
)
ASSUMPTIONS = [
    "only propagator_unrestricted implements propagate_free; per-spin constants are applied as column scalings, so an empty spin channel is outside the domain (as the property states)",
    "Taylor remainder bound used in (b): 2 |sqrt(dt) x.L|^n / n! relative, n = n_exp_terms",
]
DTS = [0.04, 0.02, 0.01, 0.005]
KINDS = ["uhf", "noci", "multislater"]
SHAPES = {"uhf": [(3, (2, 1)), (3, (1, 1)), (2, (1, 1))], "noci": [(3, (2, 1))], "multislater": [(3, (2, 1))]}


def selftest():
    _fock_selftest()
    quad.selftest()


@st.composite
def fp_case(draw, tier, shard=0, nshards=1, histories=False):
    kind = draw(st.sampled_from(measure.kinds_for_shard(KINDS, shard, nshards)))
    norb, nelec = draw(st.sampled_from(SHAPES[kind]))
    params = draw(gens.trial_params(kind, norb, nelec, True if kind != "multislater" else None))
    w = draw(gens.walker(norb, nelec, frame=gens.reference_frame(kind, norb, nelec, params)))
    nchol = draw(st.sampled_from([1, 2, 2]))
    ham = draw(gens.hamiltonian(norb, spin_dependent=draw(st.booleans()), nchol=nchol, chol_kinds=("generic", "generic", "generic", "generic", "diagonal", "zero")))
    r = draw(gens.real((2, norb, norb)))
    c = {
        "kind": kind, "norb": norb, "nelec": list(nelec), "params": params, "walker": w, "restricted": False, "ham": ham,
        "rdm1": (r + r.transpose(0, 2, 1)) / 2 + np.stack([np.eye(norb) * 0.5] * 2), "ene0": draw(st.sampled_from([0.0, -1.7, 2.0])),
        "n_exp_terms": draw(st.sampled_from([4, 6, 10])),
    }
    if histories:
        k = draw(st.integers(1, 3))
        nw = 2  # static for the jitted step: keep the number of distinct compilations small
        c["fields"] = draw(gens.real((k, nw, nchol), -4.0, 4.0))
        c["dt"] = draw(st.sampled_from([0.01, 0.05]))
        c["walkers_extra"] = [draw(gens.walker(norb, nelec, frame=gens.reference_frame(kind, norb, nelec, params))) for _ in range(nw - 1)]
    return c


def _lib(case, dt, nw, n_exp):
    kind, norb, nelec = case["kind"], int(case["norb"]), (int(case["nelec"][0]), int(case["nelec"][1]))
    trial, wd, extra = gens.build_trial(kind, norb, nelec, case["params"])
    wd = dict(wd)
    wd["rdm1"] = jnp.asarray(np.asarray(case["rdm1"], float))
    H = hmod.hamiltonian(norb)
    chol = np.asarray(case["ham"]["chol"], float) * 0.5
    hd = {"h0": float(case["ham"]["h0"]), "h1": jnp.asarray(np.asarray(case["ham"]["h1"], float)), "chol": jnp.asarray(chol.reshape(-1, norb * norb)), "ene0": float(case["ene0"])}
    prop = propagation.propagator_unrestricted(dt=dt, n_walkers=nw, n_exp_terms=n_exp)
    hd = H.build_measurement_intermediates(hd, trial, wd)
    hd = H.build_propagation_intermediates(hd, prop, trial, wd)
    return trial, wd, hd, prop, chol, H


def _prop_data(trial, wd, ups, dns):
    walkers = [jnp.asarray(ups), jnp.asarray(dns)]
    ov = trial.calc_overlap(walkers, wd)
    nw = ups.shape[0]
    return {"walkers": walkers, "weights": jnp.ones(nw), "overlaps": ov, "normed_overlaps": ov, "norms": jnp.ones(nw) + 0.0j, "e_estimate": jnp.asarray(0.0), "pop_control_ene_shift": jnp.asarray(0.0)}


def avg_strategy(tier, shard=0, nshards=1):
    return fp_case(tier, shard, nshards, histories=False)


def avg_body(ctx, case):
    norb, nelec = int(case["norb"]), (int(case["nelec"][0]), int(case["nelec"][1]))
    s = measure.Setup(case)
    if s.cond > 1e4 or not (s.scale > 0 and abs(s.ovlp_exact) >= 1e-3 * s.scale):
        ctx.count("rejected:walker-ill-conditioned-for-this-trial")
        hypothesis.assume(False)
    chol = np.asarray(case["ham"]["chol"], float) * 0.5
    nchol = chol.shape[0]
    F = fock(norb)
    Hm = F.hamiltonian(float(case["ham"]["h0"]), np.asarray(case["ham"]["h1"], float), chol)
    idx = F.sector(*nelec)
    x, wq = quad.nodes_weights(nchol, 12)
    nw = len(x)
    comm = max((np.linalg.norm(chol[a] @ chol[b] - chol[b] @ chol[a]) for a in range(nchol) for b in range(nchol)), default=0.0)
    ctx.case(case, nontrivial=nchol >= 2 and comm > 1e-6, classes=["fp-average:" + case["kind"], f"nchol={nchol}", f"n_exp_terms={case['n_exp_terms']}"])
    import scipy.sparse as sp

    R, RV = [], []
    n_exp = int(case["n_exp_terms"])
    for dt in DTS:
        try:
            trial, wd, hd, prop, _, _ = _lib(case, dt, nw, n_exp)
            pd = _prop_data(trial, wd, np.tile(s.up, (nw, 1, 1)), np.tile(s.dn, (nw, 1, 1)))
            out = prop.propagate_free(trial, hd, pd, jnp.asarray(x), wd)
        except Exception as e:
            ctx.fail(f"fp:raised-{type(e).__name__}:{case['kind']}", case, f"dt={dt}: {type(e).__name__}: {e}")
            return
        Wu, Wd, nm = np.asarray(out["walkers"][0]), np.asarray(out["walkers"][1]), np.asarray(out["norms"])
        acc = np.zeros(F.dim, complex)
        for k in range(nw):
            acc += wq[k] * nm[k] * F.slater(Wu[k], Wd[k])
        ref = F.expm_apply(-dt * (Hm - float(case["ene0"]) * sp.identity(F.dim, format="csr")), s.phi, idx)
        R.append(float(np.linalg.norm(acc - ref) / np.linalg.norm(ref)))
        RV.append((acc - ref) / np.linalg.norm(ref))
    share = measure.first_order_share(RV, DTS)
    # Taylor truncation floor of the field exponential for the largest node
    lmax = float(np.max(np.abs(x))) * math.sqrt(DTS[-1]) * float(sum(np.linalg.norm(L, 2) for L in chol))
    floor = 1e-11 + 10 * lmax**n_exp / math.factorial(n_exp)
    ctx.err(f"R(dt=0.005) [{case['kind']}]", R[-1])
    for a, b, d in ((R[1], R[2], 0.02), (R[2], R[3], 0.01)):
        if b < floor:
            ctx.count("at-truncation-or-roundoff-floor")
            continue
        if not (a / max(b, 1e-300) >= 3.0):
            if share <= 0.2:  # cubic term opposing the quadratic one, nothing first order (see measure.first_order_share)
                ctx.count("ratio-below-3-but-no-first-order-term(cubic-crossover)")
                continue
            ctx.fail(f"fp-average:not-second-order:{case['kind']}", case, f"residuals {R} for dt {DTS}: R({d})/R({d / 2}) = {a / max(b, 1e-300):.2f} < 3 (floor {floor:.1e}) and a term linear in dt explains {share:.0%} of R({DTS[-1]})")
            return
    hnorm = abs(float(case["ham"]["h0"])) + abs(float(case["ene0"])) + float(np.sum(np.abs(case["ham"]["h1"]))) / 2 + float(np.sum(np.sum(np.abs(chol), axis=(1, 2)) ** 2))
    if not R[-1] <= 50.0 * (1 + hnorm) ** 3 * DTS[-1] ** 2 + floor:
        ctx.fail(f"fp-average:residual-too-large:{case['kind']}", case, f"R(0.005) = {R[-1]:.3e}; residuals {R}")


# ---- (b) bookkeeping over k steps ----------------------------------------------------------------------------------
def hist_strategy(tier, shard=0, nshards=1):
    return fp_case(tier, shard, nshards, histories=True)


def hist_body(ctx, case):
    norb, nelec = int(case["norb"]), (int(case["nelec"][0]), int(case["nelec"][1]))
    fields = np.asarray(case["fields"], float)
    k, nw, nchol = fields.shape
    dt, n_exp = float(case["dt"]), int(case["n_exp_terms"])
    s0 = measure.Setup(case)
    ws = [case["walker"]] + list(case["walkers_extra"])
    ups = np.stack([np.asarray(w["up"], complex).reshape(norb, nelec[0]) for w in ws])
    dns = np.stack([np.asarray(w["dn"], complex).reshape(norb, nelec[1]) for w in ws])
    if max(np.linalg.cond(a) for a in list(ups) + list(dns)) > 1e6:
        ctx.count("rejected:walker-rank-deficient")
        hypothesis.assume(False)
    ctx.case(case, nontrivial=k >= 2, classes=["fp-history:" + case["kind"], f"steps={k}", f"n_exp_terms={n_exp}", f"dt={dt}"])
    try:
        trial, wd, hd, prop, chol, H = _lib(case, dt, nw, n_exp)
        pd = _prop_data(trial, wd, ups, dns)
        for t in range(k):
            pd = prop.propagate_free(trial, hd, pd, jnp.asarray(fields[t]), wd)
    except Exception as e:
        ctx.fail(f"fp:raised-{type(e).__name__}:{case['kind']}", case, f"{type(e).__name__}: {e}")
        return
    F = fock(norb)
    exp_h1 = np.asarray(hd["exp_h1"])
    mffp = np.asarray(hd["mf_shifts_fp"])
    h0fp = np.asarray(hd["h0_prop_fp"])
    Qu, Qd, nm = np.asarray(pd["walkers"][0]), np.asarray(pd["walkers"][1]), np.asarray(pd["norms"])
    ov = np.asarray(pd["overlaps"])
    nov = np.asarray(pd["normed_overlaps"]) if "normed_overlaps" in pd else None
    for i in range(nw):
        u, d = ups[i].copy(), dns[i].copy()
        rem = 0.0
        for t in range(k):
            xl = np.einsum("g,gij->ij", fields[t, i], chol)
            E = scipy.linalg.expm(1j * math.sqrt(dt) * xl)
            a = math.sqrt(dt) * np.linalg.norm(xl, 2)
            rem += 2 * a**n_exp / math.factorial(n_exp) * math.exp(a)
            cs = [np.exp(-math.sqrt(dt) * np.dot(fields[t, i], mffp[sidx])) * np.exp(dt * h0fp[sidx]) for sidx in range(2)]
            u = cs[0] * (exp_h1[0] @ E @ exp_h1[0] @ u)
            d = cs[1] * (exp_h1[1] @ E @ exp_h1[1] @ d)
        want = F.slater(u, d)
        got = nm[i] * F.slater(Qu[i], Qd[i])
        scale = float(np.linalg.norm(want)) + 1e-300
        cw = max(np.linalg.cond(ups[i]), np.linalg.cond(dns[i]))
        tol = (1e-10 * cw + rem * max(nelec) * 4) * scale
        err = float(np.linalg.norm(got - want))
        ctx.err("bookkeeping: |norms*Slater(Q) - product| / (|product| (1e-10 cond + remainder))", err / tol)
        if not err <= tol:
            ctx.fail(f"fp-bookkeeping:state:{'multi-step' if k > 1 else 'single-step'}", case, f"walker {i}: |norms x Slater(Q) - un-normalised product| = {err:.3e} > {tol:.3e} (Taylor remainder bound {rem:.2e}, {k} steps)")
            return
        for lab, A in (("up", Qu[i]), ("dn", Qd[i])):
            ctx.check_close("fp-bookkeeping:not-orthonormal", case, f"Q^H Q - 1 ({lab})", A.conj().T @ A, np.eye(A.shape[1]), 1e-12, 1.0)
        psi = s0.psi
        pn = float(np.linalg.norm(psi))
        ctx.check_close("fp-bookkeeping:stored-overlap", case, "overlaps - <psi_T|norms Slater(Q)>", ov[i], np.vdot(psi, got), 1e-9, pn * float(np.linalg.norm(got)) + 1e-300)
        # normed_overlaps is the overlap of a *second* QR of the already orthonormal walker. The statement says nothing about it and nothing
        # reads it; LAPACK may return that second Q with some columns negated (it does when a leading entry has an exactly zero real part),
        # so only the modulus is determined by the represented state.
        if nov is not None:
            ctx.check_close("fp-bookkeeping:normed-overlap-modulus", case, "|normed_overlaps| - |<psi_T|Slater(Q)>|", abs(nov[i]), abs(np.vdot(psi, F.slater(Qu[i], Qd[i]))), 1e-9, pn)


# ---- (c) block energy of the free-projection sampler ------------------------------------------------------------------
@st.composite
def block_strategy(draw, tier, shard=0, nshards=1):
    c = draw(fp_case(tier, 0, 1, histories=False))
    c["seed"] = draw(st.integers(0, 2**31 - 1))
    c["n_prop_steps"] = draw(st.integers(1, 3))
    c["nw"] = draw(st.integers(1, 4))
    # accumulated norms handed to the sampler's own entry point (a run continued from an earlier slice)
    c["norms0"] = [draw(st.sampled_from([1.0, 0.5, 2.5, -1.5])) * (1 + 0.5j * draw(st.integers(0, 1))) for _ in range(4)]
    return c


def block_body(ctx, case):
    norb, nelec = int(case["norb"]), (int(case["nelec"][0]), int(case["nelec"][1]))
    s = measure.Setup(case)
    if s.cond > 1e4 or not (s.scale > 0 and abs(s.ovlp_exact) >= 1e-3 * s.scale):
        ctx.count("rejected:walker-ill-conditioned-for-this-trial")
        hypothesis.assume(False)
    nw = int(case["nw"])
    ctx.case(case, nontrivial=nw >= 2, classes=["fp-block:" + case["kind"], f"n_prop_steps={case['n_prop_steps']}"])
    try:
        trial, wd, hd, prop, chol, H = _lib(case, 0.01, nw, int(case["n_exp_terms"]))
        pd = _prop_data(trial, wd, np.tile(s.up, (nw, 1, 1)), np.tile(s.dn, (nw, 1, 1)))
        pd["key"] = jax.random.PRNGKey(int(case["seed"]))
        smp = sampling.sampler(n_prop_steps=int(case["n_prop_steps"]), n_ene_blocks=1, n_sr_blocks=1, n_blocks=1)
        pd2, (tr, be, bw) = smp._block_scan_free(pd, None, hd, prop, trial, wd)
        el = np.asarray(trial.calc_energy(pd2["walkers"], hd, wd))
    except Exception as e:
        ctx.fail(f"fp:raised-{type(e).__name__}:{case['kind']}", case, f"{type(e).__name__}: {e}")
        return
    ov = np.asarray(pd2["overlaps"])
    if abs(np.sum(ov)) < 1e-6 * np.sum(np.abs(ov)):
        ctx.count("skipped:overlap-sum-cancels")
        return
    want = np.sum(el * ov) / np.sum(ov)
    sc = float(np.sum(np.abs(el * ov)) / abs(np.sum(ov))) + 1e-300
    ctx.check_close("fp-block:energy-definition", case, "block energy - sum(E_L ovlp)/sum(ovlp)", complex(be), want, 1e-10, sc)
    ctx.check_close("fp-block:weight-definition", case, "block weight - sum(ovlp)", complex(bw), np.sum(ov), 1e-12, float(np.sum(np.abs(ov))) + 1e-300)
    # the sampler's public free-projection entry point = the chain of its blocks, starting from whatever norms the state carries
    try:
        smp2 = sampling.sampler(n_prop_steps=int(case["n_prop_steps"]), n_ene_blocks=1, n_sr_blocks=1, n_blocks=2)
        start = _prop_data(trial, wd, np.tile(s.up, (nw, 1, 1)), np.tile(s.dn, (nw, 1, 1)))
        start["key"] = jax.random.PRNGKey(int(case["seed"]))
        start["norms"] = jnp.asarray(np.asarray(case["norms0"][:nw], complex))
        a = {k: (list(v) if isinstance(v, list) else v) for k, v in start.items()}
        tr_pub, be_pub, bw_pub, _ = smp2.propagate_free(H, hd, prop, a, trial, wd)
        b = {k: (list(v) if isinstance(v, list) else v) for k, v in start.items()}
        b["overlaps"] = trial.calc_overlap(b["walkers"], wd)
        bes, bws = [], []
        for _ in range(2):
            b, (_, be_k, bw_k) = smp2._block_scan_free(b, None, hd, prop, trial, wd)
            bes.append(complex(be_k))
            bws.append(complex(bw_k))
    except Exception as e:
        ctx.fail(f"fp:raised-{type(e).__name__}:{case['kind']}:public-entry", case, f"{type(e).__name__}: {e}")
        return
    ctx.count("fp-block:public-entry-vs-chain")
    wsc = float(np.max(np.abs(bws))) + 1e-300
    if abs(np.sum(bws)) > 1e-6 * wsc:
        ctx.check_close("fp-block:public-entry:weights", case, "block weights of sampler.propagate_free - chain of its blocks from the carried norms", np.asarray(bw_pub), np.asarray(bws), 1e-10, wsc)
        ctx.check_close("fp-block:public-entry:energies", case, "block energies of sampler.propagate_free - chain of its blocks", np.asarray(be_pub), np.asarray(bes), 1e-8, float(np.max(np.abs(bes))) + 1.0)
    nm_pub = np.asarray(tr_pub["norms"])[-1]
    ctx.check_close("fp-block:public-entry:norms", case, "final norms of sampler.propagate_free - chain of its blocks", nm_pub, np.asarray(b["norms"]), 1e-10, float(np.max(np.abs(np.asarray(b["norms"])))) + 1e-300)


SUBCHECKS = [
    SubCheck("field_average", body=avg_body, strategy=avg_strategy, examples={"quick": 4, "thorough": 50}, shards={"quick": 3, "thorough": 6}, shrink=False),
    SubCheck("norm_bookkeeping_histories", body=hist_body, strategy=hist_strategy, examples={"quick": 10, "thorough": 120}, shards={"quick": 3, "thorough": 6}, shrink=False),
    SubCheck("free_block_energy", body=block_body, strategy=block_strategy, examples={"quick": 6, "thorough": 60}, shards={"quick": 2, "thorough": 4}, shrink=False),
]
