"""C03 — force bias equals <psi_T|L_g|phi>/<psi_T|phi> for every Cholesky operator."""
import numpy as np

from vlib import env

env.setup()
import hypothesis
import jax
import jax.numpy as jnp
from hypothesis import strategies as st

from vlib import gens, measure
from vlib.fockref import selftest as _fock_selftest
from vlib.harness import SubCheck

PROPERTY = "C03"
LEVEL = "exploration"
RULE = (
    "Same generator as C02 (trial kind x shape table x parameters x complex walker x 1..3 symmetric Cholesky matrices). Three oracles per case: "
    "(a) Fock space: vdot(psi, one_body(L_g) phi)/vdot(psi, phi) per component g; (b) metamorphic tie to the overlap: jax.jvp (forward mode) and a "
    "central difference of the library's own overlap along expm(x L_g) walker at x = 0, divided by the overlap; (c) differential: hand-coded cisd / ucisd "
    "vs reverse-mode CISD / UCISD on identical wave_data, restricted vs unrestricted entry points with equal spin blocks. "
    "Non-trivial = >= 2 distinct non-zero Cholesky matrices, complex walker not proportional to the trial; compared per component, not summed."
)
ASSUMPTIONS = [
    "tolerance 1e-9 x F_scale (sum|psi_i||(L_g phi)_i| / |<psi|phi>| x max(1, cond(reference block))^2) for the exact comparisons; central difference step 1e-5 with tolerance 1e-6 x F_scale",
    "cases with |<psi|phi>| < 1e-3 x sum of absolute terms are rejected (counted)",
]


def selftest():
    _fock_selftest()


def _nontrivial(s):
    chol = np.asarray(s.case["ham"]["chol"])
    nz = [tuple(np.round(L, 12).ravel()) for L in chol if np.any(L)]
    nrm = np.linalg.norm(s.psi) * np.linalg.norm(s.phi)
    return bool(len(set(nz)) >= 2 and abs(s.ovlp_exact) < 0.999 * nrm and np.any(np.abs(s.phi.imag) > 0))


def fb_strategy(tier, shard=0, nshards=1):
    # per-component comparison needs several distinct operators: mostly generic Cholesky matrices
    return measure.measurement_case(tier, measure.kinds_for_shard(gens.ALL_KINDS, shard, nshards), with_ham=True, ham_kw={"chol_kinds": ("generic", "generic", "generic", "generic", "diagonal", "zero")})


def _prep(ctx, case):
    s = measure.Setup(case)
    if s.cond > measure.COND_MAX:
        ctx.count("skipped:reference-block-ill-conditioned")
        return None
    if not (s.scale > 0 and np.isfinite(s.scale) and abs(s.ovlp_exact) >= 1e-3 * s.scale):
        ctx.count("rejected:overlap-too-small")
        hypothesis.assume(False)
    return s


def fb_body(ctx, case):
    s = _prep(ctx, case)
    if s is None:
        return
    ctx.case(case, nontrivial=_nontrivial(s), classes=s.classes() + ["chol:" + str(case["ham"].get("chol_kind"))])
    tag = measure.bucket_suffix(s)
    chol = np.asarray(case["ham"]["chol"], float)
    Lphi = [s.F.one_body(L, L) @ s.phi for L in chol]
    want = np.array([np.vdot(s.psi, v) / s.ovlp_exact for v in Lphi])
    lnorm = float(np.max(np.sum(np.abs(chol), axis=(1, 2)))) if chol.size else 0.0
    fscale = (max(float(np.sum(np.abs(s.psi) * np.abs(v))) for v in Lphi) + 1e-3 * lnorm * s.scale) / abs(s.ovlp_exact) * max(1.0, s.cond) ** 2 + 1e-300
    try:
        hd = s.ham_data()
        got = s.lib_force_bias(hd)
    except Exception as e:
        ctx.fail(f"force-bias:raised-{type(e).__name__}:{tag}", case, f"{type(e).__name__}: {e}")
        return
    if got.shape != want.shape:
        ctx.fail(f"force-bias:shape:{tag}", case, f"shape {got.shape}, {len(chol)} Cholesky vectors")
        return
    ctx.check_close(f"force-bias:{tag}", case, f"force bias[{s.kind}] vs Fock", got, want, 1e-9, fscale)
    # (b) logarithmic derivative of the library's own overlap along exp(x L_g)
    if s.restricted:
        f = lambda u: s.trial._calc_overlap_restricted(u, s.wave_data)
        args = (s.jup,)
    else:
        f = lambda u, d: s.trial._calc_overlap(u, d, s.wave_data)
        args = (s.jup, s.jdn)
    try:
        ov = complex(f(*args))
        fwd, cdf = [], []
        h = 1e-5
        for L in chol:
            Lj = jnp.asarray(L)
            tang = tuple(Lj @ a for a in args)
            if min(s.nelec) > 0:
                _, t = jax.jvp(f, args, tang)
                fwd.append(complex(t) / ov)
            import scipy.linalg

            Ep, Em = scipy.linalg.expm(h * L), scipy.linalg.expm(-h * L)
            cdf.append((complex(f(*[jnp.asarray(Ep) @ a for a in args])) - complex(f(*[jnp.asarray(Em) @ a for a in args]))) / (2 * h) / ov)
    except Exception as e:
        ctx.fail(f"force-bias:overlap-derivative-raised-{type(e).__name__}:{tag}", case, f"{type(e).__name__}: {e}")
        return
    if fwd:  # jax cannot differentiate the determinant of a 0x0 block (empty spin channel): forward-mode oracle skipped there
        ctx.check_close(f"force-bias:vs-forward-mode-overlap-derivative:{tag}", case, f"force bias[{s.kind}] vs jvp of overlap", got, np.array(fwd), 1e-9, fscale)
    else:
        ctx.count("forward-mode-oracle-skipped:empty-spin-channel")
    fd_scale = fscale * max(1.0, lnorm) ** 2 + 1e-3 * (s.scale / abs(s.ovlp_exact)) * max(1.0, s.cond) ** 2  # + round-off 1e-16/h of the difference quotient
    ctx.check_close(f"force-bias:vs-finite-difference-overlap-derivative:{tag}", case, f"force bias[{s.kind}] vs central difference of overlap", got, np.array(cdf), 1e-6, fd_scale)
    # (c) entry points and implementations
    if s.restricted and s.kind not in gens.RESTRICTED_ONLY:
        try:
            un = s.lib_force_bias(hd, restricted=False)
        except Exception as e:
            ctx.fail(f"force-bias:raised-{type(e).__name__}:{s.kind}:unrestricted-entry", case, f"{type(e).__name__}: {e}")
            return
        ctx.count("restricted-vs-unrestricted-compared")
        ctx.check_close(f"force-bias:entry-points-disagree:{s.kind}", case, f"force bias restricted-unrestricted[{s.kind}]", un, got, 1e-9, fscale)
    twin = {"cisd": "CISD", "ucisd": "UCISD"}.get(s.kind)
    if twin and min(s.nelec) > 0:  # the AD kinds do not admit an empty spin channel
        s2 = measure.Setup(dict(case, kind=twin))
        try:
            got2 = s2.lib_force_bias(s2.ham_data())
        except Exception as e:
            ctx.fail(f"force-bias:raised-{type(e).__name__}:{twin}", case, f"{type(e).__name__}: {e}")
            return
        ctx.count("hand-coded-vs-reverse-mode-compared")
        ctx.check_close(f"force-bias:{s.kind}-vs-{twin}", case, f"force bias hand-coded {s.kind} vs reverse-mode {twin}", got, got2, 1e-9, fscale)


SUBCHECKS = [
    SubCheck("force_bias_three_oracles", body=fb_body, strategy=fb_strategy, examples={"quick": 50, "thorough": 700}, shards={"quick": 12, "thorough": 12}),
]
