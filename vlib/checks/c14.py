"""C14 — walkers evolve independently; batching and storage format change nothing."""
import numpy as np

from vlib import env

env.setup()
import hypothesis
import jax
import jax.numpy as jnp
from hypothesis import strategies as st

from ad_afqmc import hamiltonian as hmod
from ad_afqmc import propagation, sampling, wavefunctions
from vlib import gens, measure, runs
from vlib import samplerlib as sl
from vlib.harness import SubCheck, Violation

PROPERTY = "C14"
LEVEL = "exploration"
RULE = (
    "(a) Hypothesis draws a trial kind with parameters, a batch of 2..6 pairwise distinct complex walkers, a permutation and two batch counts dividing the "
    "walker count: calc_overlap / calc_force_bias / calc_energy of the permuted batch = permuted outputs, and outputs are equal for every batch count. "
    "(b) the same for _apply_trotprop and propagate() of the restricted, unrestricted and CPMC propagators with the fields, weights and overlaps permuted "
    "along; the population-control shift must be invariant. (c) closed-shell problems run twice - RHF trial + restricted walkers vs UHF trial + unrestricted "
    "walkers with equal spin blocks, same orbitals, same key - through propagate(), sampler.propagate_phaseless and complete driver.afqmc runs: weights, "
    "walkers, block energies must coincide. Non-trivial = permutation != identity, walkers pairwise distinct, a batch count different from 1 and N when N allows."
)
ASSUMPTIONS = [
    "equivariance tolerances 1e-12 relative (the computations are the same floating-point operations in a different order of the batch axis); restricted vs unrestricted 1e-9 over <= 3 blocks (driver: float32 storage, 1e-5)",
]

KINDS = ["rhf", "uhf", "ghf", "noci", "cisd", "ucisd", "multislater"]
SHAPES = {"rhf": [(3, (2, 2))], "uhf": [(3, (2, 1))], "ghf": [(3, (2, 1))], "noci": [(3, (2, 1))], "cisd": [(3, (1, 1))], "ucisd": [(3, (2, 1))], "multislater": [(3, (2, 1))]}
# closed-shell variants for the kinds that accept both walker containers (restricted array / unrestricted list): measurement sub-check only
CLOSED_VARIANT = {"uhf": (3, (1, 1)), "multislater": (3, (1, 1)), "ucisd": (3, (1, 1))}


@st.composite
def batch_case(draw, tier, shard=0, nshards=1, with_fields=False):
    kind = draw(st.sampled_from(measure.kinds_for_shard(KINDS if not with_fields else ["rhf", "uhf", "noci", "cisd", "cpmc"], shard, nshards)))
    lk = "uhf" if kind == "cpmc" else kind
    norb, nelec = SHAPES[lk][0]
    if not with_fields and lk in CLOSED_VARIANT and draw(st.integers(0, 2)) == 0:
        norb, nelec = CLOSED_VARIANT[lk]
    params = draw(gens.trial_params(lk, norb, nelec, True if lk in ("rhf", "uhf", "ghf", "noci") else None))
    nw = draw(st.sampled_from([2, 4, 6, 3]))
    restricted = lk in ("rhf", "cisd")
    frame = gens.reference_frame(lk, norb, nelec, params)
    ws = [draw(gens.walker(norb, nelec, restricted=restricted, frame=frame)) for _ in range(nw)]
    perm = list(draw(st.permutations(range(nw))))
    divs = [d for d in range(1, nw + 1) if nw % d == 0]
    ham = draw(gens.hamiltonian(norb, spin_dependent=(not restricted) and draw(st.booleans()), nchol=2, chol_kinds=("generic",)))
    c = {"kind": kind, "norb": norb, "nelec": list(nelec), "params": params, "walkers": ws, "perm": perm, "nb1": draw(st.sampled_from(divs)), "nb2": draw(st.sampled_from(divs)), "ham": ham, "restricted": restricted}
    if with_fields:
        c["fields"] = draw(gens.real((nw, 2 if kind != "cpmc" else norb), -2.0, 2.0))
        c["weights"] = [draw(st.sampled_from([1.0, 0.5, 2.0, 0.0, 30.0])) for _ in range(nw)]
        c["dt"] = draw(st.sampled_from([0.01, 0.05]))
        r = draw(gens.real((2, norb, norb)))
        c["rdm1"] = (r + r.transpose(0, 2, 1)) / 2 + np.stack([np.eye(norb) * 0.5] * 2)
    return c


def _stack(case):
    norb, nelec = int(case["norb"]), (int(case["nelec"][0]), int(case["nelec"][1]))
    ups = np.stack([np.asarray(w["up"], complex).reshape(norb, nelec[0]) for w in case["walkers"]])
    dns = np.stack([np.asarray(w["dn"], complex).reshape(norb, nelec[1]) for w in case["walkers"]])
    return ups, dns


def _container(ups, dns, restricted):
    return jnp.asarray(ups) if restricted else [jnp.asarray(ups), jnp.asarray(dns)]


def _distinct(ups, dns):
    return len({ups[i].tobytes() + dns[i].tobytes() for i in range(len(ups))}) == len(ups)


def meas_strategy(tier, shard=0, nshards=1):
    return batch_case(tier, shard, nshards, with_fields=False)


def _meas_tol(nm, kind):
    """Same floating-point operations in a different order of the batch axis: 1e-12, except for the energies that are not computed in
    plain float64 arithmetic: the hand-coded CI energies contain float32 / complex64 casts, and the AD kinds take a second *finite
    difference* of overlaps with step 1e-4, which amplifies the last-bit differences XLA's batch-shape dependent fusion leaves in the
    overlaps by 1/eps^2 = 1e8 (observed: 1.3e-8 relative between n_batch = 1 and 3)."""
    if nm == "energy" and (kind in ("cisd", "ucisd") or kind in gens.AD_KINDS):
        return 2e-6
    return 1e-12


def meas_body(ctx, case):
    kind, norb, nelec = case["kind"], int(case["norb"]), (int(case["nelec"][0]), int(case["nelec"][1]))
    ups, dns = _stack(case)
    nw = len(ups)
    perm = np.array(case["perm"])
    restricted = bool(case["restricted"])
    nb1, nb2 = int(case["nb1"]), int(case["nb2"])
    ctx.case(case, nontrivial=_distinct(ups, dns) and not np.array_equal(perm, np.arange(nw)) and (nb1 not in (1, nw) or nb2 not in (1, nw) or nw < 4), classes=["measure:" + kind, f"N={nw}", f"n_batch={nb1}/{nb2}"])
    outs = {}
    try:
        for nb in sorted({nb1, nb2}):
            trial, wd, extra = gens.build_trial(kind, norb, nelec, case["params"], n_batch=nb)
            H, hd = gens.build_ham(norb, case["ham"], trial, wd)
            w = _container(ups, dns, restricted)
            wp = _container(ups[perm], dns[perm], restricted)
            outs[nb] = (
                [np.asarray(trial.calc_overlap(w, wd)), np.asarray(trial.calc_force_bias(w, hd, wd)), np.asarray(trial.calc_energy(w, hd, wd))],
                [np.asarray(trial.calc_overlap(wp, wd)), np.asarray(trial.calc_force_bias(wp, hd, wd)), np.asarray(trial.calc_energy(wp, hd, wd))],
            )
    except Exception as e:
        ctx.fail(f"measure:raised-{type(e).__name__}:{kind}", case, f"{type(e).__name__}: {str(e)[:300]}")
        return
    names = ["overlap", "force-bias", "energy"]
    # Wick-type kinds invert a block per walker (NOCI: one per determinant); where that block is nearly singular the last-bit differences between
    # two batch shapes are amplified like in any other measurement check: such populations are skipped (and counted), as C01-C03 do
    amp = max(gens.reference_block_cond(kind, norb, nelec, case["params"], ups[i], dns[i]) for i in range(nw))
    if amp > 1e4:
        ctx.count("skipped:reference-block-ill-conditioned")
        return
    # closed shell, spin-independent one-body term, equal spin blocks: the restricted array and the unrestricted list [W, W] are two
    # containers for the same walkers and must give the same measurements
    h1_ = np.asarray(case["ham"]["h1"], float)
    if (not restricted) and nelec[0] == nelec[1] and np.array_equal(h1_[0], h1_[1]):
        try:
            nb = sorted({nb1, nb2})[0]
            trial, wd, extra = gens.build_trial(kind, norb, nelec, case["params"], n_batch=nb)
            H, hd = gens.build_ham(norb, case["ham"], trial, wd)
            wl, wa = [jnp.asarray(ups), jnp.asarray(ups)], jnp.asarray(ups)
            ml = [np.asarray(trial.calc_overlap(wl, wd)), np.asarray(trial.calc_force_bias(wl, hd, wd)), np.asarray(trial.calc_energy(wl, hd, wd))]
            ma = [np.asarray(trial.calc_overlap(wa, wd)), np.asarray(trial.calc_force_bias(wa, hd, wd)), np.asarray(trial.calc_energy(wa, hd, wd))]
        except Exception as e:
            ctx.fail(f"measure:container:raised-{type(e).__name__}:{kind}", case, f"{type(e).__name__}: {str(e)[:300]}")
            return
        if all(np.all(np.isfinite(x)) for x in ml + ma):
            ctx.count("measure:container-pair-compared:" + kind)
            for nm, x, y in zip(["overlap", "force-bias", "energy"], ma, ml):
                ctx.check_close(f"measure:container-dependence:{kind}:{nm}", case, f"{nm} restricted array - unrestricted list of equal spin blocks [{kind}]", x, y, max(_meas_tol(nm, kind), 1e-10), float(np.max(np.abs(y))) + 1e-300)
    for nb, (a, b) in outs.items():
        for nm, x, y in zip(names, a, b):
            if not np.all(np.isfinite(x)):
                ctx.count("skipped:nonfinite-measurement")
                return
            if x.shape[0] != nw:
                ctx.fail(f"measure:shape:{kind}:{nm}", case, f"{nm} has shape {x.shape} for {nw} walkers")
                return
            ctx.check_close(f"measure:not-equivariant:{kind}:{nm}", case, f"{nm}(perm batch) - perm {nm}(batch) [{kind}]", y, x[perm], _meas_tol(nm, kind), float(np.max(np.abs(x))) + 1e-300)
    if len(outs) == 2:
        (a, _), (b, _) = outs[nb1], outs[nb2]
        for nm, x, y in zip(names, a, b):
            # the hand-coded CI energies contain float32 / complex64 casts: a different batch shape changes XLA's rounding there
            tol = _meas_tol(nm, kind)
            ctx.check_close(f"measure:n_batch-dependence:{kind}:{nm}", case, f"{nm} n_batch={nb1} vs {nb2} [{kind}]", x, y, tol, float(np.max(np.abs(x))) + 1e-300)


# ---- (b) propagation ------------------------------------------------------------------------------------------------------
def prop_strategy(tier, shard=0, nshards=1):
    return batch_case(tier, shard, nshards, with_fields=True)


def prop_body(ctx, case):
    kind, norb, nelec = case["kind"], int(case["norb"]), (int(case["nelec"][0]), int(case["nelec"][1]))
    lk = "uhf" if kind == "cpmc" else kind
    ups, dns = _stack(case)
    if kind == "cpmc":
        ups, dns = ups.real + 0j, dns.real + 0j
    nw = len(ups)
    perm = np.array(case["perm"])
    restricted = bool(case["restricted"])
    dt = float(case["dt"])
    fields = np.asarray(case["fields"], float)
    wts = np.asarray(case["weights"], float)
    nb1, nb2 = int(case["nb1"]), int(case["nb2"])
    ctx.case(case, nontrivial=_distinct(ups, dns) and not np.array_equal(perm, np.arange(nw)), classes=["propagate:" + kind, f"N={nw}", f"n_batch={nb1}/{nb2}"] + (["has-dead-walker"] if np.any(wts == 0) else []))
    res = {}
    try:
        for nb in sorted({nb1, nb2}):
            if kind == "cpmc":
                trial = wavefunctions.uhf_cpmc(norb, nelec, n_batch=nb)
                wd = {"mo_coeff": [jnp.asarray(np.asarray(case["params"]["mo_coeff"][0])), jnp.asarray(np.asarray(case["params"]["mo_coeff"][1]))]}
                prop = propagation.propagator_cpmc(dt=dt, n_walkers=nw, n_batch=nb)
            else:
                trial, wd, extra = gens.build_trial(lk, norb, nelec, case["params"], n_batch=nb)
                prop = (propagation.propagator_restricted if restricted else propagation.propagator_unrestricted)(dt=dt, n_walkers=nw, n_batch=nb)
            wd = dict(wd)
            wd["rdm1"] = jnp.asarray(np.asarray(case["rdm1"], float))
            H = hmod.hamiltonian(norb)
            chol = np.asarray(case["ham"]["chol"], float) * 0.5
            hd = {"h0": float(case["ham"]["h0"]), "h1": jnp.asarray(np.asarray(case["ham"]["h1"], float)), "chol": jnp.asarray(chol.reshape(-1, norb * norb)), "ene0": 0.0, "u": 4.0}
            hd = H.build_measurement_intermediates(hd, trial, wd)
            hd = H.build_propagation_intermediates(hd, prop, trial, wd)
            out = []
            for p in (np.arange(nw), perm):
                w = _container(ups[p], dns[p], restricted)
                pd = prop.init_prop_data(trial, wd, hd, w)
                pd["weights"] = jnp.asarray(wts[p])
                pd["e_estimate"] = jnp.asarray(0.3)
                pd["pop_control_ene_shift"] = jnp.asarray(0.3)
                pd["key"] = jax.random.PRNGKey(0)
                o = prop.propagate(trial, hd, pd, jnp.asarray(fields[p]), wd)
                tw = None
                if kind != "cpmc":
                    tw = prop._apply_trotprop(hd, _container(ups[p], dns[p], restricted), jnp.asarray(fields[p]))
                out.append((o, tw))
            res[nb] = out
    except Exception as e:
        ctx.fail(f"propagate:raised-{type(e).__name__}:{kind}", case, f"{type(e).__name__}: {str(e)[:300]}")
        return

    def flat(o):
        w = o["walkers"]
        return np.asarray(w) if restricted else np.concatenate([np.asarray(w[0]).reshape(nw, -1), np.asarray(w[1]).reshape(nw, -1)], axis=1)

    def flat_t(tw):
        return np.asarray(tw) if restricted else np.concatenate([np.asarray(tw[0]).reshape(nw, -1), np.asarray(tw[1]).reshape(nw, -1)], axis=1)

    for nb, ((o, tw), (op, twp)) in res.items():
        if not np.all(np.isfinite(np.asarray(o["weights"]))):
            ctx.count("skipped:nonfinite-weights")
            return
        for nm, x, y in (("weights", np.asarray(o["weights"]), np.asarray(op["weights"])), ("overlaps", np.asarray(o["overlaps"]), np.asarray(op["overlaps"])), ("walkers", flat(o), flat(op))):
            ctx.check_close(f"propagate:not-equivariant:{kind}:{nm}", case, f"{nm}(perm) - perm {nm} [{kind}]", y, x[perm], 1e-12, float(np.max(np.abs(x))) + 1e-300)
        if tw is not None:
            ctx.check_close(f"propagate:trotprop-not-equivariant:{kind}", case, f"_apply_trotprop(perm) - perm [{kind}]", flat_t(twp), flat_t(tw)[perm], 1e-12, float(np.max(np.abs(flat_t(tw)))) + 1e-300)
        s1, s2 = float(np.asarray(o["pop_control_ene_shift"])), float(np.asarray(op["pop_control_ene_shift"]))
        if np.isfinite(s1) or np.isfinite(s2):
            ctx.check_close(f"propagate:shift-not-symmetric:{kind}", case, f"pop_control_ene_shift under permutation [{kind}]", s2, s1, 1e-10, max(1.0, abs(s1)))
    if len(res) == 2:
        a, b = res[nb1][0][0], res[nb2][0][0]
        for nm, x, y in (("weights", np.asarray(a["weights"]), np.asarray(b["weights"])), ("overlaps", np.asarray(a["overlaps"]), np.asarray(b["overlaps"])), ("walkers", flat(a), flat(b))):
            ctx.check_close(f"propagate:n_batch-dependence:{kind}:{nm}", case, f"{nm} n_batch={nb1} vs {nb2} [{kind}]", x, y, 1e-12, float(np.max(np.abs(x))) + 1e-300)


# ---- (c) restricted vs unrestricted -------------------------------------------------------------------------------------------
RU_CONFIGS = [
    {"shape": (3, (1, 1)), "nw": 4, "nb": 2, "dt": 0.01, "steps": 3, "ene": 2, "sr": 2},
    {"shape": (4, (2, 2)), "nw": 6, "nb": 1, "dt": 0.05, "steps": 2, "ene": 1, "sr": 2},
    {"shape": (3, (2, 2)), "nw": 2, "nb": 1, "dt": 0.005, "steps": 4, "ene": 2, "sr": 1},
    {"shape": (4, (2, 2)), "nw": 4, "nb": 4, "dt": 0.01, "steps": 1, "ene": 3, "sr": 1},
]


@st.composite
def ru_case(draw, tier, shard=0, nshards=1):
    cfgs = [c for i, c in enumerate(RU_CONFIGS) if i % nshards == shard] or RU_CONFIGS
    c = draw(st.sampled_from(cfgs))
    p = draw(sl.problem(walker_types=("rhf",), shapes={"rhf": [c["shape"]]}, n_walkers=(c["nw"],), dts=(c["dt"],), nchol=(2,)))
    p["n_batch"] = c["nb"]
    p.update({"n_prop_steps": c["steps"], "n_ene_blocks": c["ene"], "n_sr_blocks": c["sr"], "perturb": draw(st.sampled_from([0.0, 0.1])), "driver": draw(st.integers(0, 3)) == 0})
    # option combination of the driver run; weights only become unequal at block end without in-block reconfiguration
    p["drv_ad_mode"], p["drv_do_sr"], p["drv_orot"] = draw(st.sampled_from([(None, True, True), ("forward", False, True), ("reverse", False, False), ("forward", True, False), ("reverse", False, True), ("forward", False, True)]))
    p["sr_weights"] = [draw(st.floats(0.05, 3.0)) for _ in range(c["nw"])]
    return p


def ru_body(ctx, case):
    Pr = sl.Problem(case, walker_type="rhf")
    Pu = sl.Problem(case, walker_type="uhf")
    if not (Pr.converged and Pu.converged):
        ctx.count("rejected:scf-not-converged")
        hypothesis.assume(False)
    ctx.case(case, nontrivial=True, classes=["r-vs-u", f"blocks={case['n_sr_blocks']}x{case['n_ene_blocks']}x{case['n_prop_steps']}", "r-vs-u:driver" if case["driver"] else "r-vs-u:sampler"])
    mo_r = np.asarray(Pr.wave_data["mo_coeff"])
    mo_u = [np.asarray(Pu.wave_data["mo_coeff"][0]), np.asarray(Pu.wave_data["mo_coeff"][1])]
    proj = lambda a: a @ a.T
    if max(np.max(np.abs(proj(mo_r) - proj(mo_u[0]))), np.max(np.abs(proj(mo_r) - proj(mo_u[1])))) > 1e-8:
        ctx.count("rejected:uhf-solution-spin-broken")
        hypothesis.assume(False)
    # identical orbitals for both runs (the UHF optimiser may return a different basis of the same space)
    Pu.wave_data["mo_coeff"] = [jnp.asarray(mo_r), jnp.asarray(mo_r)]
    Pu.wave_data["rdm1"] = Pr.wave_data["rdm1"]
    try:
        hdr, hdu = Pr.ham_data(), Pu.ham_data()
        pdr = Pr.prop_data(hdr, perturb=float(case["perturb"]))
        wr = pdr["walkers"]
        pdu = Pu.prop.init_prop_data(Pu.trial, Pu.wave_data, hdu, [wr, wr])
        pdu["key"] = pdr["key"]
        smp = sampling.sampler(n_prop_steps=int(case["n_prop_steps"]), n_ene_blocks=int(case["n_ene_blocks"]), n_sr_blocks=int(case["n_sr_blocks"]), n_blocks=2)
        # single public steps
        f = jax.random.normal(jax.random.PRNGKey(5), (Pr.nw, Pr.chol.shape[0]))
        sr_ = Pr.prop.propagate(Pr.trial, hdr, sl.copy_pd(pdr), f, Pr.wave_data)
        su_ = Pu.prop.propagate(Pu.trial, hdu, sl.copy_pd(pdu), f, Pu.wave_data)
        er, qr_ = smp.propagate_phaseless(Pr.ham, hdr, Pr.prop, sl.copy_pd(pdr), Pr.trial, Pr.wave_data)
        eu, qu_ = smp.propagate_phaseless(Pu.ham, hdu, Pu.prop, sl.copy_pd(pdu), Pu.trial, Pu.wave_data)
    except Exception as e:
        ctx.fail(f"r-vs-u:raised-{type(e).__name__}", case, f"{type(e).__name__}: {str(e)[:300]}")
        return
    ctx.check_close("r-vs-u:initial-energy", case, "e_estimate restricted - unrestricted", float(pdr["e_estimate"]), float(pdu["e_estimate"]), 1e-10, max(1.0, abs(float(pdr["e_estimate"]))))
    ctx.check_close("r-vs-u:step:weights", case, "weights after one step", np.asarray(su_["weights"]), np.asarray(sr_["weights"]), 1e-10, 1.0)
    ctx.check_close("r-vs-u:step:overlaps", case, "overlaps after one step", np.asarray(su_["overlaps"]), np.asarray(sr_["overlaps"]), 1e-10, float(np.max(np.abs(np.asarray(sr_["overlaps"])))) + 1e-300)
    ctx.check_close("r-vs-u:step:walkers", case, "walkers after one step (both spin blocks)", np.stack([np.asarray(su_["walkers"][0]), np.asarray(su_["walkers"][1])]), np.stack([np.asarray(sr_["walkers"])] * 2), 1e-10, 1.0)
    # population control through the propagators' own entry points, unequal weights, same key
    try:
        from ad_afqmc import config as _config

        comm = _config.not_MPI().COMM_WORLD
        wts = jnp.asarray(case["sr_weights"], dtype=float)
        for which in ("local", "global"):
            a_, b_ = sl.copy_pd(sr_), sl.copy_pd(su_)
            a_["weights"], b_["weights"] = wts, wts
            a_["key"] = b_["key"] = jax.random.PRNGKey(int(case["seed"]) % 99991)
            if which == "local":
                a_, b_ = Pr.prop.stochastic_reconfiguration_local(a_), Pu.prop.stochastic_reconfiguration_local(b_)
            else:
                a_, b_ = Pr.prop.stochastic_reconfiguration_global(a_, comm), Pu.prop.stochastic_reconfiguration_global(b_, comm)
            ctx.count(f"r-vs-u:reconfiguration-{which}")
            ctx.check_close(f"r-vs-u:reconfiguration-{which}:weights", case, f"weights after {which} reconfiguration", np.asarray(b_["weights"]), np.asarray(a_["weights"]), 1e-12, 1.0)
            ctx.check_close(f"r-vs-u:reconfiguration-{which}:walkers", case, f"walkers after {which} reconfiguration (both spin blocks)", np.stack([np.asarray(b_["walkers"][0]), np.asarray(b_["walkers"][1])]), np.stack([np.asarray(a_["walkers"])] * 2), 1e-10, 1.0)
            if not np.array_equal(np.asarray(jax.random.key_data(a_["key"]) if hasattr(jax.random, "key_data") else a_["key"]), np.asarray(jax.random.key_data(b_["key"]) if hasattr(jax.random, "key_data") else b_["key"])):
                ctx.fail(f"r-vs-u:reconfiguration-{which}:key", case, "the two propagators leave different random keys behind")
    except (Violation, hypothesis.errors.HypothesisException):
        raise
    except Exception as e:
        ctx.fail(f"r-vs-u:reconfiguration-raised-{type(e).__name__}", case, f"{type(e).__name__}: {str(e)[:300]}")
        return
    ctx.check_close("r-vs-u:sampler:energy", case, "block energy restricted - unrestricted", float(eu), float(er), 1e-9, max(1.0, abs(float(er))))
    ctx.check_close("r-vs-u:sampler:weights", case, "weights after the sampler call", np.asarray(qu_["weights"]), np.asarray(qr_["weights"]), 1e-9, 1.0)
    if case["driver"]:
        try:
            outs = []
            for P_, wt in ((Pr, "rhf"), (Pu, "uhf")):
                opts = runs.default_options(seed=int(case["seed"]) % 100000, n_walkers=P_.nw, dt=P_.dt, n_prop_steps=int(case["n_prop_steps"]), n_ene_blocks=int(case["n_ene_blocks"]), n_sr_blocks=int(case["n_sr_blocks"]), n_blocks=3, walker_type=wt, n_batch=P_.nb,
                                            ad_mode=case.get("drv_ad_mode"), do_sr=bool(case.get("drv_do_sr", True)), orbital_rotation=bool(case.get("drv_orot", True)))
                smp3 = sampling.sampler(n_prop_steps=int(case["n_prop_steps"]), n_ene_blocks=int(case["n_ene_blocks"]), n_sr_blocks=int(case["n_sr_blocks"]), n_blocks=3)
                o_ = np.diag(np.arange(P_.norb, dtype=float))
                obs_ = [np.stack([o_, o_]), 0.0] if case.get("drv_ad_mode") else None
                outs.append(runs.run_driver(P_.ham_data0, P_.ham, P_.prop, P_.trial, P_.wave_data, smp3, obs_, opts))
        except Exception as e:
            ctx.fail(f"r-vs-u:driver-raised-{type(e).__name__}", case, f"{type(e).__name__}: {str(e)[:300]}")
            return
        a, b = outs[0]["samples_raw"], outs[1]["samples_raw"]
        if a is None or b is None or a.shape != b.shape:
            ctx.fail("r-vs-u:driver-samples", case, f"samples_raw shapes {None if a is None else a.shape} vs {None if b is None else b.shape}")
            return
        ctx.count(f"r-vs-u:driver:ad_mode={case.get('drv_ad_mode')},do_sr={case.get('drv_do_sr', True)},orbital_rotation={case.get('drv_orot', True)}")
        ctx.check_close("r-vs-u:driver:block-energies", case, "driver block energies restricted - unrestricted", b[:, 1], a[:, 1], 1e-5, max(1.0, float(np.max(np.abs(a[:, 1])))))
        ctx.check_close("r-vs-u:driver:block-weights", case, "driver block weights restricted - unrestricted", b[:, 0], a[:, 0], 1e-5, max(1.0, float(np.max(np.abs(a[:, 0])))))


SUBCHECKS = [
    SubCheck("measurement_equivariance", body=meas_body, strategy=meas_strategy, examples={"quick": 10, "thorough": 120}, shards={"quick": 7, "thorough": 7}, shrink=False),
    SubCheck("propagation_equivariance", body=prop_body, strategy=prop_strategy, examples={"quick": 8, "thorough": 100}, shards={"quick": 5, "thorough": 5}, shrink=False),
    SubCheck("restricted_vs_unrestricted", body=ru_body, strategy=ru_case, examples={"quick": 5, "thorough": 50}, shards={"quick": 4, "thorough": 4}, shrink=False),
]
