"""C10 — the CPMC step samples the discrete Hubbard-Stratonovich propagator without bias."""
import itertools

import numpy as np
import scipy.linalg
import scipy.special

from vlib import env

env.setup()
import hypothesis
import jax
import jax.numpy as jnp
from hypothesis import strategies as st

from ad_afqmc import hamiltonian as hmod
from ad_afqmc import lattices, propagation, wavefunctions
from vlib import gens
from vlib.fockref import fock, selftest as _fock_selftest
from vlib.harness import SubCheck

PROPERTY = "C10"
LEVEL = "exploration"
EXHAUSTIVE = True
RULE = (
    "Hypothesis draws a small lattice (chains/rings with 2..4 sites, 2x2 grid), a filling with both spins present (open shells included), U in (0, 8], "
    "dt in {0.005, 0.05}, E_shift, a UHF or GHF CPMC trial (eigenvectors of the hopping matrix plus a generated spin-dependent site potential: uniform and "
    "non-uniform density; GHF: spin-rotated), a real walker near the trial, and the ham_data class: on-site Cholesky vectors chol_g = sqrt(U) n_g as the "
    "examples' route produces them, or chol = 0; intermediates through the library's own build_propagation_intermediates. For each case ALL 2^n field "
    "configurations are forced in one batched call (Gaussian numbers -/+10) and the per-site selection probabilities are measured from the implementation "
    "by bisection on the uniform number; then sum_c P(c) (w'_c/w) Slater(phi'_c)/ovlp'_c is compared in Fock space with exp(dt E_shift) exp(-dt K/2) "
    "prod_i exp(-dt U n_i_up n_i_dn) exp(-dt K/2) Slater(phi)/ovlp (K = lattice hopping operator). Separately ALL ordered pairs of spin orbitals "
    "(same spin i != j, opposite spin any i, j) are enumerated for the incremental overlap ratio / Green's function update against from-scratch values, "
    "and fast vs slow propagators (cpmc / cpmc_slow, cpmc_nn / cpmc_nn_slow, same key) are compared over seeds, U, U_1. "
    "exhaustive = the inner spaces (field configurations, spin-orbital pairs) of each generated case; the outer parameters are sampled. "
    "Non-trivial = U > 0.5, non-uniform trial density or open shell, >= 3 sites."
)
ASSUMPTIONS = [
    "identity required only when no constraint is active: cases where a measured branch probability is 0/1 or a weight is zeroed are counted and skipped",
    "bisection: 48 halvings of the uniform number per site; probabilities must sum to 1 within 1e-9",
]


def selftest():
    _fock_selftest()


def lattice_h1(kind, n):
    if kind == "chain":
        adj = np.asarray(lattices.one_dimensional_chain(n).create_adjacency_matrix(), float)
    else:
        adj = np.asarray(lattices.two_dimensional_grid(2, 2).create_adjacency_matrix(), float)
    return -adj


@st.composite
def trial_and_walker(draw, n, nelec, h1, kinds=("uhf", "ghf")):
    kind = draw(st.sampled_from(list(kinds)))
    density = draw(st.sampled_from(["uniform", "non-uniform", "non-uniform"]))
    pot = draw(gens.real((n,))) * (0.0 if density == "uniform" else 1.5)
    tiny = 1e-3 * np.arange(n)
    e, v = np.linalg.eigh(h1 + np.diag(pot + tiny))
    e2, v2 = np.linalg.eigh(h1 + np.diag(-pot + tiny))
    mo = [v[:, : nelec[0]], v2[:, : nelec[1]]]
    theta = draw(st.sampled_from([0.0, np.pi / 4, 0.3])) if kind == "ghf" else 0.0
    wu = mo[0] + 0.25 * draw(gens.real((n, nelec[0])))
    wd = mo[1] + 0.25 * draw(gens.real((n, nelec[1])))
    return {"trial_kind": kind, "density": density, "mo_up": mo[0], "mo_dn": mo[1], "theta": theta, "wu": wu, "wd": wd}


def build_cpmc_trial(n, nelec, t):
    mo_u, mo_d = np.asarray(t["mo_up"], float), np.asarray(t["mo_dn"], float)
    rdm = jnp.asarray(np.stack([mo_u @ mo_u.T, mo_d @ mo_d.T]))
    if t["trial_kind"] == "uhf":
        trial = wavefunctions.uhf_cpmc(n, nelec)
        wd = {"mo_coeff": [jnp.asarray(mo_u), jnp.asarray(mo_d)], "rdm1": rdm}
        C = None
    else:
        th = float(t["theta"])
        C = np.zeros((2 * n, nelec[0] + nelec[1]))
        C[:n, : nelec[0]] = np.cos(th) * mo_u
        C[n:, : nelec[0]] = np.sin(th) * mo_u
        C[:n, nelec[0] :] = -np.sin(th) * mo_d
        C[n:, nelec[0] :] = np.cos(th) * mo_d
        trial = wavefunctions.ghf_cpmc(n, nelec)
        wd = {"mo_coeff": jnp.asarray(C), "rdm1": rdm}
    return trial, wd, C


def trial_fock(n, nelec, t, C):
    F = fock(n)
    if C is None:
        return F.slater(np.asarray(t["mo_up"]), np.asarray(t["mo_dn"]))
    return F.product_state(C)


# ---- 1. exhaustive sum over field configurations ------------------------------------------------------------------
@st.composite
def sum_case(draw, tier, shard=0, nshards=1):
    lat = draw(st.sampled_from([("chain", 2), ("chain", 3), ("chain", 3), ("chain", 4), ("grid", 4)] if tier == "thorough" else [("chain", 3), ("chain", 3), ("chain", 4), ("chain", 4), ("chain", 2)]))
    n = lat[1]
    nelec = draw(st.sampled_from([(a, b) for a in range(1, n + 1) for b in range(1, a + 1) if a + b <= 2 * n - 1]))
    h1 = lattice_h1(*lat)
    t = draw(trial_and_walker(n, nelec, h1, kinds=(("uhf", "ghf")[shard % 2],) if nshards > 1 else ("uhf", "ghf")))
    return {
        "lattice": list(lat), "nelec": list(nelec), "U": draw(st.sampled_from([2.0, 4.0, 8.0, 0.5])), "dt": draw(st.sampled_from([0.005, 0.05])),
        "e_shift": draw(st.sampled_from([0.0, 0.2, -1.0])), "trial": t, "chol_class": draw(st.sampled_from(["on-site", "on-site", "zero"])),
        "slow": draw(st.booleans()),
        # a spin-dependent one-body term (pinning / Zeeman field on the sites): K_up != K_dn
        "pin": draw(st.sampled_from([None, None, "field"])) and [draw(st.floats(-1.0, 1.0)) for _ in range(n)],
    }


def _h1_spin(case, h1):
    pin = case.get("pin")
    if not pin:
        return h1, h1
    return h1 + np.diag(np.asarray(pin, float)), h1 - np.diag(np.asarray(pin, float))


def sum_body(ctx, case):
    lat, n = case["lattice"][0], int(case["lattice"][1])
    nelec = (int(case["nelec"][0]), int(case["nelec"][1]))
    U, dt, Es = float(case["U"]), float(case["dt"]), float(case["e_shift"])
    t = case["trial"]
    h1 = lattice_h1(lat, n)
    h1u, h1d = _h1_spin(case, h1)
    F = fock(n)
    trial, wd, C = build_cpmc_trial(n, nelec, t)
    nconf = 2**n
    prop = (propagation.propagator_cpmc_slow if case["slow"] else propagation.propagator_cpmc)(dt=dt, n_walkers=nconf)
    chol = np.zeros((n, n, n))
    if case["chol_class"] == "on-site":
        for i in range(n):
            chol[i, i, i] = np.sqrt(U)
    H = hmod.hamiltonian(n)
    hd = {"h0": 0.0, "h1": jnp.asarray(np.stack([h1u, h1d])), "chol": jnp.asarray(chol.reshape(n, -1)), "ene0": 0.0, "u": U}
    wu, wdn = np.asarray(t["wu"], float), np.asarray(t["wd"], float)
    nonuniform = t["density"] != "uniform"
    ctx.case(case, nontrivial=U > 0.5 and n >= 3 and (nonuniform or nelec[0] != nelec[1]), classes=["sum:" + t["trial_kind"], "sum:chol-" + case["chol_class"], f"sum:n={n}", "sum:" + ("slow" if case["slow"] else "fast"), "sum:density-" + t["density"], "sum:one-body-" + ("spin-dependent" if case.get("pin") else "spin-independent")])
    try:
        hd = H.build_measurement_intermediates(hd, trial, wd)
        hd = H.build_propagation_intermediates(hd, prop, trial, wd)
        walkers = [jnp.asarray(np.tile(wu, (nconf, 1, 1))) + 0j, jnp.asarray(np.tile(wdn, (nconf, 1, 1))) + 0j]
        pd0 = prop.init_prop_data(trial, wd, hd, walkers)
    except Exception as e:
        ctx.fail(f"sum:setup-raised-{type(e).__name__}:{t['trial_kind']}", case, f"{type(e).__name__}: {e}")
        return
    pd0["pop_control_ene_shift"] = jnp.asarray(Es)
    pd0["key"] = jax.random.PRNGKey(0)
    ov0 = complex(np.asarray(pd0["overlaps"])[0])
    if abs(ov0) < 1e-3:
        ctx.count("rejected:initial-overlap-small")
        hypothesis.assume(False)
    confs = np.array(list(itertools.product([0, 1], repeat=n)))

    def call(uni):
        g = np.sqrt(2) * scipy.special.erfinv(np.clip(2 * uni - 1, -1 + 1e-16, 1 - 1e-16))
        g = np.where(uni <= 0, -10.0, np.where(uni >= 1, 10.0, g))
        pd = {k: (list(v) if isinstance(v, list) else v) for k, v in pd0.items()}
        return prop.propagate(trial, hd, pd, jnp.asarray(g), wd)

    forced = np.where(confs == 0, 0.0, 1.0)
    try:
        out = call(forced)
        Wu_all = np.asarray(out["walkers"][0])
        P = np.ones(nconf)
        for k in range(n):
            lo, hi = np.zeros(nconf), np.ones(nconf)
            partner = np.array([c - (confs[c, k] << (n - 1 - k)) for c in range(nconf)])  # same configuration with bit k = 0
            for _ in range(48):
                mid = (lo + hi) / 2
                uni = forced.copy()
                uni[:, k] = mid
                o = np.asarray(call(uni)["walkers"][0])
                same0 = np.array([np.allclose(o[c], Wu_all[partner[c]], rtol=1e-12, atol=1e-14) for c in range(nconf)])
                lo = np.where(same0, mid, lo)
                hi = np.where(same0, hi, mid)
            p0 = (lo + hi) / 2
            P *= np.where(confs[:, k] == 0, p0, 1 - p0)
    except Exception as e:
        ctx.fail(f"sum:raised-{type(e).__name__}:{t['trial_kind']}", case, f"{type(e).__name__}: {e}")
        return
    w = np.asarray(out["weights"])
    ov = np.asarray(out["overlaps"])
    if np.iscomplexobj(w) and np.max(np.abs(w.imag)) > 0:
        ctx.fail("sum:complex-weight", case, "weights are complex")
        return
    if np.any(P <= 1e-12) or np.any(w == 0) or not np.all(np.isfinite(w)):
        # legitimate only if a constraint is really active: verify with exact Fock overlaps that some branch along some path has a non-positive ratio
        psi_t = trial_fock(n, nelec, t, C)
        K = F.one_body(h1u, h1d)
        idx_s = F.sector(*nelec)
        gam = np.arccosh(np.exp(dt * U / 2))
        cst = np.exp(-dt * U / 2)
        hs = cst * np.array([[np.exp(gam), np.exp(-gam)], [np.exp(-gam), np.exp(gam)]])
        e_half_u, e_half_d = scipy.linalg.expm(-dt / 2 * h1u), scipy.linalg.expm(-dt / 2 * h1d)
        constrained = False
        for c in range(nconf):
            Wu_, Wd_ = e_half_u @ wu, e_half_d @ wdn
            o_prev = np.vdot(psi_t, F.slater(Wu_, Wd_)).real
            if o_prev <= 0:
                constrained = True
                break
            for k in range(n):
                ratios = []
                for x in (0, 1):
                    A, B = Wu_.copy(), Wd_.copy()
                    A[k, :] *= hs[x, 0]
                    B[k, :] *= hs[x, 1]
                    ratios.append(np.vdot(psi_t, F.slater(A, B)).real / o_prev)
                if min(ratios) < 1e-6:
                    constrained = True
                    break
                x = int(confs[c, k])
                Wu_[k, :] *= hs[x, 0]
                Wd_[k, :] *= hs[x, 1]
                o_prev = np.vdot(psi_t, F.slater(Wu_, Wd_)).real
            if constrained:
                break
            o_fin = np.vdot(psi_t, F.slater(e_half_u @ Wu_, e_half_d @ Wd_)).real
            if o_fin / o_prev < 1e-6:
                constrained = True
                break
        if constrained:
            ctx.count("skipped:constraint-active")
            return
        ctx.fail(f"sum:branch-never-taken-although-unconstrained:{t['trial_kind']}", case, f"measured branch probabilities {P.tolist()} / weights {w.tolist()} although every exact overlap ratio along every path is positive")
        return
    if abs(P.sum() - 1) > 1e-9:
        ctx.fail(f"sum:probabilities-not-normalised:{t['trial_kind']}", case, f"measured branch probabilities sum to {P.sum()!r}")
        return
    Wu, Wd = np.asarray(out["walkers"][0]), np.asarray(out["walkers"][1])
    acc = sum(P[c] * w[c] * F.slater(Wu[c], Wd[c]) / ov[c] for c in range(nconf))
    phi = F.slater(wu, wdn)
    K = F.one_body(h1u, h1d)
    idx = F.sector(*nelec)
    v = F.expm_apply(-dt / 2 * K, phi, idx)
    for i in range(n):
        v = F.expm_apply(-dt * U * (F.E(i, i) @ F.E(n + i, n + i)), v, idx)
    v = F.expm_apply(-dt / 2 * K, v, idx) * np.exp(dt * Es) / ov0
    r = float(np.linalg.norm(acc - v) / np.linalg.norm(v))
    ctx.err(f"sum residual [{t['trial_kind']}, chol {case['chol_class']}]", r)
    # the stored overlaps must be the true overlaps of the propagated walkers
    psi = trial_fock(n, nelec, t, C)
    ov_exact = np.array([np.vdot(psi, F.slater(Wu[c], Wd[c])) for c in range(nconf)])
    ctx.check_close(f"sum:stored-overlap:{t['trial_kind']}:{'slow' if case['slow'] else 'fast'}", case, "stored overlap - true overlap of the new walker", ov, ov_exact, 1e-9, float(np.max(np.abs(ov_exact))) + 1e-300)
    if not r <= 1e-9:
        fac = np.vdot(v, acc) / np.vdot(v, v)
        r2 = float(np.linalg.norm(acc - fac * v) / np.linalg.norm(v))
        sub = "one-body:chol!=0" if case["chol_class"] == "on-site" else "chol=0"
        ctx.fail(f"sum:biased:{sub}", case, f"residual {r:.3e} (modulo a constant factor {abs(fac):.6f}: {r2:.3e}); {n} sites, nelec {nelec}, U {U}, dt {dt}, trial {t['trial_kind']} density {t['density']}")


# ---- 2. incremental updates, all ordered pairs of spin orbitals ---------------------------------------------------------
@st.composite
def pair_case(draw, tier, shard=0, nshards=1):
    n = draw(st.sampled_from([2, 3, 4]))
    nelec = draw(st.sampled_from([(a, b) for a in range(1, n + 1) for b in range(1, a + 1) if a + b <= 2 * n - 1]))
    h1 = lattice_h1("chain", n)
    t = draw(trial_and_walker(n, nelec, h1))
    return {"n": n, "nelec": list(nelec), "trial": t, "c0": draw(st.sampled_from([0.3, -0.4, 1.7, 0.05])), "c1": draw(st.sampled_from([-0.2, 0.6, 2.2, -0.7]))}


def pair_body(ctx, case):
    n, nelec = int(case["n"]), (int(case["nelec"][0]), int(case["nelec"][1]))
    t = case["trial"]
    trial, wd, C = build_cpmc_trial(n, nelec, t)
    wu, wdn = np.asarray(t["wu"], float), np.asarray(t["wd"], float)
    c = np.array([float(case["c0"]), float(case["c1"])])
    ctx.case(case, nontrivial=n >= 3, classes=["pairs:" + t["trial_kind"], f"pairs:n={n}"])
    F = fock(n)
    psi = trial_fock(n, nelec, t, C)
    ov0 = np.vdot(psi, F.slater(wu, wdn))
    if abs(ov0) < 1e-3:
        ctx.count("rejected:initial-overlap-small")
        hypothesis.assume(False)
    try:
        g0 = trial.calc_full_green(jnp.asarray(wu), jnp.asarray(wdn), wd)
    except Exception as e:
        ctx.fail(f"pairs:raised-{type(e).__name__}", case, f"{type(e).__name__}: {e}")
        return
    npairs = 0
    for (si, i), (sj, j) in itertools.product(itertools.product((0, 1), range(n)), repeat=2):
        if si == sj and i == j:
            continue
        npairs += 1
        W = [wu.copy(), wdn.copy()]
        W[si][i, :] *= 1 + c[0]
        W[sj][j, :] *= 1 + c[1]
        ov1 = np.vdot(psi, F.slater(W[0], W[1]))
        want_ratio = ov1 / ov0
        idx = jnp.asarray([[si, i], [sj, j]])
        try:
            ratio = complex(trial.calc_overlap_ratio(g0, idx, jnp.asarray(c)))
            g1 = np.asarray(trial.update_greens_function(g0, ratio, idx, jnp.asarray(c)))
            gref = np.asarray(trial.calc_full_green(jnp.asarray(W[0]), jnp.asarray(W[1]), wd))
        except Exception as e:
            ctx.fail(f"pairs:raised-{type(e).__name__}:{t['trial_kind']}", case, f"pair ({si},{i}),({sj},{j}): {type(e).__name__}: {e}")
            return
        spin = "same-spin" if si == sj else "opposite-spin"
        ctx.check_close(f"pairs:overlap-ratio:{t['trial_kind']}:{spin}", case, f"overlap ratio [{t['trial_kind']}, {spin}]", ratio, want_ratio, 1e-9, max(1.0, abs(want_ratio)))
        if abs(want_ratio) > 1e-6:
            ctx.check_close(f"pairs:green-update:{t['trial_kind']}:{spin}", case, f"updated Green's function [{t['trial_kind']}, {spin}] pair ({si},{i}),({sj},{j})", g1, gref, 1e-8, (1.0 + float(np.max(np.abs(gref)))) / min(1.0, abs(want_ratio)))
    ctx.count("pairs-enumerated", npairs)


# ---- 3. fast vs slow propagators ------------------------------------------------------------------------------------------
@st.composite
def fs_case(draw, tier, shard=0, nshards=1):
    nn = (shard % 2 == 1) if nshards > 1 else draw(st.booleans())
    lat = draw(st.sampled_from([("chain", 3), ("chain", 4), ("grid", 4)]))
    n = lat[1]
    nelec = draw(st.sampled_from([(a, b) for a in range(1, n + 1) for b in range(1, a + 1) if a + b <= 2 * n - 1]))
    h1 = lattice_h1(*lat)
    t = draw(trial_and_walker(n, nelec, h1))
    return {"lattice": list(lat), "nelec": list(nelec), "trial": t, "U": draw(st.sampled_from([1.0, 4.0, 8.0])), "U1": draw(st.sampled_from([0.25, 1.0, 2.0])), "nn": nn,
            "seed": draw(st.integers(0, 2**31 - 1)), "dt": draw(st.sampled_from([0.01, 0.05])), "steps": draw(st.integers(1, 3)), "nw": draw(st.sampled_from([3, 6])),
            # open boundary (one bond of the ring removed): the number of bonds then differs from the number of sites
            "open": draw(st.booleans())}


def fs_body(ctx, case):
    lat, n = case["lattice"][0], int(case["lattice"][1])
    nelec = (int(case["nelec"][0]), int(case["nelec"][1]))
    t = case["trial"]
    h1 = lattice_h1(lat, n)
    trial, wd, C = build_cpmc_trial(n, nelec, t)
    nw, dt = int(case["nw"]), float(case["dt"])
    nn = bool(case["nn"])
    if case.get("open") and lat == "chain" and n >= 3:
        h1 = np.array(h1)
        h1[0, n - 1] = h1[n - 1, 0] = 0.0
    ctx.case(case, nontrivial=True, classes=["fast-vs-slow:" + ("nn" if nn else "onsite"), "fast-vs-slow:" + t["trial_kind"], f"steps={case['steps']}", "fast-vs-slow:" + ("open-chain" if (case.get("open") and lat == "chain" and n >= 3) else "periodic")])
    adj = -h1
    neighbors = tuple((i, j) for i in range(n) for j in range(i + 1, n) if adj[i, j] != 0)
    if nn:
        fast = propagation.propagator_cpmc_nn(dt=dt, n_walkers=nw, neighbors=neighbors)
        slow = propagation.propagator_cpmc_nn_slow(dt=dt, n_walkers=nw, neighbors=neighbors)
    else:
        fast = propagation.propagator_cpmc(dt=dt, n_walkers=nw)
        slow = propagation.propagator_cpmc_slow(dt=dt, n_walkers=nw)
    H = hmod.hamiltonian(n)
    base = {"h0": 0.0, "h1": jnp.asarray(np.stack([h1, h1])), "chol": jnp.zeros((n, n * n)), "ene0": 0.0, "u": float(case["U"]), "u_1": float(case["U1"])}
    rng_key = jax.random.PRNGKey(int(case["seed"]))
    wu, wdn = np.asarray(t["wu"], float), np.asarray(t["wd"], float)
    noise = np.asarray(jax.random.normal(rng_key, (nw, n, nelec[0] + nelec[1]))) * 0.05
    walkers0 = [np.tile(wu, (nw, 1, 1)) + noise[:, :, : nelec[0]], np.tile(wdn, (nw, 1, 1)) + noise[:, :, nelec[0] :]]
    res = {}
    try:
        for name, prop in (("fast", fast), ("slow", slow)):
            hd = H.build_measurement_intermediates(dict(base), trial, wd)
            hd = H.build_propagation_intermediates(hd, prop, trial, wd)
            pd = prop.init_prop_data(trial, wd, hd, [jnp.asarray(walkers0[0]) + 0j, jnp.asarray(walkers0[1]) + 0j])
            pd["key"] = rng_key
            fkey = jax.random.PRNGKey(int(case["seed"]) + 1)
            for s in range(int(case["steps"])):
                fkey, sub = jax.random.split(fkey)
                pd = prop.propagate(trial, hd, pd, jax.random.normal(sub, (nw, n)), wd)
            res[name] = pd
    except Exception as e:
        ctx.fail(f"fast-vs-slow:raised-{type(e).__name__}:{'nn' if nn else 'onsite'}:{t['trial_kind']}", case, f"{type(e).__name__}: {e}")
        return
    a, b = res["fast"], res["slow"]
    wa, wb = np.asarray(a["weights"]), np.asarray(b["weights"])
    if not np.all(np.isfinite(wb)):
        ctx.count("skipped:slow-reference-not-finite")
        return
    alive = int(np.sum(wb > 0))
    ctx.count("fast-vs-slow:alive-walkers", alive)
    tag = f"{'nn' if nn else 'onsite'}:{t['trial_kind']}"
    same_branch = np.array([np.allclose(np.asarray(a["walkers"][0][k]), np.asarray(b["walkers"][0][k]), rtol=1e-9, atol=1e-12) and np.allclose(np.asarray(a["walkers"][1][k]), np.asarray(b["walkers"][1][k]), rtol=1e-9, atol=1e-12) for k in range(nw)])
    if not same_branch.all():
        # a uniform number within round-off of a branch probability can flip a branch legitimately; anything else is a disagreement
        ctx.fail(f"fast-vs-slow:walkers:{tag}", case, f"walkers differ for {int((~same_branch).sum())} of {nw} walkers")
        return
    ctx.check_close(f"fast-vs-slow:weights:{tag}", case, f"weights fast - slow [{tag}]", wa, wb, 1e-8, float(np.max(np.abs(wb))) + 1e-300)
    ctx.check_close(f"fast-vs-slow:overlaps:{tag}", case, f"overlaps fast - slow [{tag}]", np.asarray(a["overlaps"]), np.asarray(b["overlaps"]), 1e-8, float(np.max(np.abs(np.asarray(b["overlaps"])))) + 1e-300)


SUBCHECKS = [
    SubCheck("exhaustive_field_sum", body=sum_body, strategy=sum_case, examples={"quick": 8, "thorough": 60}, shards={"quick": 4, "thorough": 8}, shrink=False),
    SubCheck("incremental_updates_all_pairs", body=pair_body, strategy=pair_case, examples={"quick": 12, "thorough": 150}, shards={"quick": 2, "thorough": 4}, shrink=False),
    SubCheck("fast_vs_slow", body=fs_body, strategy=fs_case, examples={"quick": 5, "thorough": 60}, shards={"quick": 4, "thorough": 8}, shrink=False),
]
