"""C01 — trial overlap equals the true many-body overlap <psi_T|phi>."""
import numpy as np

from vlib import env

env.setup()
import jax.numpy as jnp
from hypothesis import strategies as st

from vlib import gens, measure
from vlib.fockref import fock, selftest as _fock_selftest
from vlib.harness import SubCheck

PROPERTY = "C01"
LEVEL = "exploration"
RULE = (
    "Hypothesis draws a trial kind (rhf, uhf, ghf, noci, multislater, cisd, cisd_faster, CISD, CISD_THC, ucisd, UCISD, GCISD), a shape "
    "(norb 2..4, electron counts incl. open shells and an empty down channel where the kind admits it) from a fixed table, admissible trial "
    "parameters (real orbitals orthonormal or not, symmetric / antisymmetric ci2, random determinant lists with random order / reference / "
    "cut-off), and a complex non-orthonormal walker (generic, near the reference block, column-scaled). Oracle: vdot(|psi_T> built operator by "
    "operator in Fock space from the same wave_data, Slater state of the walker). Further sub-checks: restricted vs unrestricted entry points, "
    "batched evaluation (list and array containers, every n_batch dividing the walker count) vs per-walker values in order, get_rdm1 vs "
    "<a+ a> of the Fock vector. Non-trivial = walker not proportional to the "
    "trial (|<psi|phi>| < 0.999 |psi||phi|), CI coefficients not all zero, and (both spin channels non-empty or open shell); batch cases: "
    ">= 2 distinct walkers; distinct by SHA-1 of the inputs."
)
ASSUMPTIONS = [
    "trial parameters are real (the GHF/NOCI/CI code paths transpose without conjugation); walkers are complex",
    "Wick-type kinds (multislater, CISD family) invert a block of the walker: cases with cond > 1e4 of that block are skipped and counted; tolerance 1e-10 * sum|terms| * max(1,cond)^2",
    "Fock model limited to norb <= 4 (quick) / 5 (thorough)",
]
TOL = 1e-10


def selftest():
    _fock_selftest()


def _nontrivial(s):
    nrm = np.linalg.norm(s.psi) * np.linalg.norm(s.phi)
    not_prop = abs(s.ovlp_exact) < 0.999 * nrm
    ci_nonzero = True
    for k in ("ci1", "ci2", "ci1A", "ci2AB", "coeffs"):
        if k in s.params and not np.any(np.asarray(s.params[k])):
            ci_nonzero = False
    return bool(not_prop and ci_nonzero and (s.nelec[1] > 0 or s.nelec[0] != s.nelec[1]))


def overlap_strategy(tier, shard=0, nshards=1):
    kinds = measure.kinds_for_shard(gens.ALL_KINDS, shard, nshards)
    return measure.measurement_case(tier, kinds)


def overlap_body(ctx, case):
    s = measure.Setup(case)
    ctx.case(case, nontrivial=_nontrivial(s), classes=s.classes())
    if s.cond > measure.COND_MAX:
        ctx.count("skipped:reference-block-ill-conditioned")
        return
    tag = measure.bucket_suffix(s)
    try:
        got = s.lib_overlap()
    except Exception as e:
        ctx.fail(f"overlap:raised-{type(e).__name__}:{tag}", case, f"{type(e).__name__}: {e}")
        return
    ctx.check_close(f"overlap:{tag}", case, f"overlap[{s.kind}]", got, s.ovlp_exact, TOL, s.scale * max(1.0, s.cond) ** 2 + 1e-300)
    # restricted and unrestricted entry points agree when the two spin blocks coincide
    if s.restricted and s.kind not in gens.RESTRICTED_ONLY:
        try:
            un = s.lib_overlap(restricted=False)
        except Exception as e:
            ctx.fail(f"overlap:raised-{type(e).__name__}:{s.kind}:unrestricted-entry", case, f"{type(e).__name__}: {e}")
            return
        ctx.count("restricted-vs-unrestricted-compared")
        ctx.check_close(f"overlap:entry-points-disagree:{tag}", case, f"restricted-unrestricted[{s.kind}]", got, un, TOL, s.scale * max(1.0, s.cond) ** 2 + 1e-300)


# ---- batched evaluation --------------------------------------------------------------------------
BATCH_KINDS = ["rhf", "uhf", "ghf", "noci", "multislater", "cisd", "UCISD", "ucisd", "CISD_THC"]


@st.composite
def batch_strategy(draw, tier, shard=0, nshards=1):
    kinds = measure.kinds_for_shard(BATCH_KINDS, shard, nshards)
    kind = draw(st.sampled_from(kinds))
    norb, nelec = draw(st.sampled_from(gens.shapes_for(kind, "quick")[:2]))
    params = draw(gens.trial_params(kind, norb, nelec))
    nw = draw(st.sampled_from([4, 6, 6, 4, 2, 3, 1]))
    restricted = kind in gens.RESTRICTED_ONLY or (nelec[0] == nelec[1] and draw(st.booleans()))
    ws = [draw(gens.walker(norb, nelec, restricted=restricted)) for _ in range(nw)]
    if nw > 1 and draw(st.integers(0, 6)) == 0:
        ws[1] = ws[0]
    divs = [d for d in range(1, nw + 1) if nw % d == 0]
    proper = [d for d in divs if 1 < d < nw]
    n_batch = draw(st.sampled_from(proper)) if proper and draw(st.integers(0, 2)) else draw(st.sampled_from(divs))
    return {"kind": kind, "norb": norb, "nelec": list(nelec), "params": params, "walkers": ws, "restricted": restricted, "n_batch": n_batch}


def batch_body(ctx, case):
    kind, norb, nelec = case["kind"], int(case["norb"]), (int(case["nelec"][0]), int(case["nelec"][1]))
    ws = case["walkers"]
    nw = len(ws)
    nb = int(case["n_batch"])
    restricted = bool(case["restricted"])
    trial, wd, extra = gens.build_trial(kind, norb, nelec, case["params"], n_batch=nb)
    ups = np.stack([np.asarray(w["up"], complex).reshape(norb, nelec[0]) for w in ws])
    dns = np.stack([np.asarray(w["dn"], complex).reshape(norb, nelec[1]) for w in ws])
    distinct = len({ups[i].tobytes() + dns[i].tobytes() for i in range(nw)})
    ctx.case(case, nontrivial=distinct >= 2 and nb >= 1, classes=["kind:" + kind, f"n_walkers={nw}", f"n_batch={nb}", "container:" + ("array" if restricted else "list")] + (["n_batch>=2"] if nb >= 2 else []) + (["proper-batching:" + ("array" if restricted else "list")] if 1 < nb < nw else []))
    trial1, _, _ = gens.build_trial(kind, norb, nelec, case["params"], n_batch=1)
    try:
        if restricted:
            got = np.asarray(trial.calc_overlap(jnp.asarray(ups), wd))
            want = np.array([complex(trial1._calc_overlap_restricted(jnp.asarray(ups[i]), wd)) for i in range(nw)])
        else:
            got = np.asarray(trial.calc_overlap([jnp.asarray(ups), jnp.asarray(dns)], wd))
            want = np.array([complex(trial1._calc_overlap(jnp.asarray(ups[i]), jnp.asarray(dns[i]), wd)) for i in range(nw)])
    except Exception as e:
        ctx.fail(f"batch:raised-{type(e).__name__}:{kind}:{'array' if restricted else 'list'}", case, f"{type(e).__name__}: {e}")
        return
    if got.shape != (nw,):
        ctx.fail(f"batch:shape:{kind}", case, f"calc_overlap returned shape {got.shape} for {nw} walkers")
        return
    scale = float(np.max(np.abs(want))) + 1e-300
    if not np.all(np.isfinite(want)):
        ctx.count("skipped:nonfinite-single-walker-value")
        return
    ctx.check_close(f"batch:order-or-value:{kind}:{'array' if restricted else 'list'}", case, f"batched overlap[{kind}]", got, want, 1e-12, scale)


# ---- one-particle density matrix -------------------------------------------------------------------
RDM_KINDS = ["rhf", "uhf", "ghf", "noci"]


def rdm_strategy(tier, shard=0, nshards=1):
    return measure.measurement_case(tier, measure.kinds_for_shard(RDM_KINDS, shard, nshards), orthonormal=True, restricted_walker=False)


def rdm_body(ctx, case):
    s = measure.Setup(case)
    ctx.case({k: case[k] for k in ("kind", "norb", "nelec", "params")}, nontrivial=s.nelec[0] + s.nelec[1] >= 2 or s.norb > 1, classes=["rdm1:" + s.kind, f"shape:{s.norb}:{s.nelec[0]},{s.nelec[1]}"])
    if s.kind == "noci":
        if abs(np.vdot(s.psi, s.psi)) < 1e-6:
            ctx.count("skipped:noci-norm-near-zero")
            return
        # the transition density matrices are built from inverses of the pairwise orbital overlap matrices: pairs of
        # (nearly) orthogonal determinants are the removable singularity of that formula - skipped and counted
        ups, dns = np.asarray(case["params"]["dets_up"]), np.asarray(case["params"]["dets_dn"])
        worst = 1.0
        for a in range(len(ups)):
            for b in range(len(ups)):
                for A, B, n in ((ups[a], ups[b], s.nelec[0]), (dns[a], dns[b], s.nelec[1])):
                    if n:
                        worst = max(worst, np.linalg.cond(A[:, :n].T @ B[:, :n]))
        if worst > 1e12:
            # exactly orthogonal pair: a legitimate NOCI trial; the library's formula divides by zero (recorded finding)
            got = np.asarray(s.trial.get_rdm1(s.wave_data))
            if not np.all(np.isfinite(got)):
                ctx.fail("rdm1:noci:orthogonal-determinant-pair", case, "noci rdm1 contains NaN/inf for an expansion with two mutually orthogonal determinants")
                return
        elif worst > 1e6:
            ctx.count("skipped:noci-nearly-orthogonal-determinant-pair")
            return
    try:
        got = np.asarray(s.trial.get_rdm1(s.wave_data))
    except Exception as e:
        ctx.fail(f"rdm1:raised-{type(e).__name__}:{s.kind}", case, f"{type(e).__name__}: {e}")
        return
    full = s.F.rdm1(s.psi)
    n = s.norb
    want = np.stack([full[:n, :n], full[n:, n:]])
    if got.shape != want.shape:
        ctx.fail(f"rdm1:shape:{s.kind}", case, f"shape {got.shape}")
        return
    nrm = abs(np.vdot(s.psi, s.psi))
    ctx.check_close(f"rdm1:{s.kind}", case, f"rdm1[{s.kind}]", got, want.real, 1e-9, max(1.0, 1.0 / nrm))
    if np.max(np.abs(want.imag)) > 1e-12:
        ctx.fail(f"rdm1:oracle-imag:{s.kind}", case, "internal: real trial gave a complex density matrix")


SUBCHECKS = [
    SubCheck("overlap_vs_fock", body=overlap_body, strategy=overlap_strategy, examples={"quick": 110, "thorough": 1500}, shards={"quick": 12, "thorough": 12}),
    SubCheck("batched_overlap", body=batch_body, strategy=batch_strategy, examples={"quick": 30, "thorough": 300}, shards={"quick": 9, "thorough": 9}),
    SubCheck("rdm1_vs_fock", body=rdm_body, strategy=rdm_strategy, examples={"quick": 60, "thorough": 800}, shards={"quick": 4, "thorough": 4}),
]
