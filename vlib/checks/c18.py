"""C18 — trial optimisation is a stable, differentiable SCF with orthonormal output."""
import numpy as np

from vlib import env

env.setup()
import hypothesis
import jax
import jax.numpy as jnp
from hypothesis import strategies as st

from ad_afqmc import linalg_utils, wavefunctions
from vlib import gens
from vlib.harness import SubCheck

PROPERTY = "C18"
LEVEL = "exploration"
RULE = (
    "Hypothesis draws symmetric Hamiltonians (norb 2..6; one-body spectrum with a generated gap 0.05..3; 1..3 Cholesky matrices of generated scale 0..1.5; "
    "spin-dependent h1 for UHF), closed and open shells, and initial orbitals = independently converged orbitals rotated by a generated angle in [0, 1.2] (or "
    "arbitrary non-orthonormal matrices for the orthonormality clause); for the eigen-derivative: symmetric matrices with generic, nearly degenerate (gaps 1e-3 .. "
    "1e-12) and exactly degenerate spectra and symmetric tangents. Oracles: C^T C = 1; an independent numpy SCF (damping + DIIS, certifying its own convergence, "
    "cross-checked against pyscf on the same integrals) for the fixed-point and energy clauses; jax.jvp(jnp.linalg.eigh) for the derivative off degeneracy, "
    "finiteness at degeneracy. Non-trivial = interacting (Cholesky matrices non-zero), >= 1 occupied and >= 1 virtual orbital."
)
ASSUMPTIONS = [
    "fixed-point clause only for problems on which the independent SCF certifies convergence (density change < 1e-12, |[F,P]| < 1e-9) - others skipped and counted",
    "energy clause only on well-conditioned problems: one-body gap >= 1 and Cholesky scale <= 0.3, initial rotation <= 0.6 rad",
    "eigenvector derivatives compared up to the sign gauge of each eigenvector",
]


# ---- independent SCF ----------------------------------------------------------------------------------------------------
def fock_build(h1, chol, P_same, P_tot):
    J = np.einsum("g,gij->ij", np.einsum("gij,ij->g", chol, P_tot), chol)
    K = np.einsum("gik,kl,glj->ij", chol, P_same, chol)
    return h1 + J - K


def hf_energy(h0, h1, chol, Pa, Pb):
    Pt = Pa + Pb
    c = np.einsum("gij,ij->g", chol, Pt)
    ex = sum(np.einsum("gik,kl,glj,ji->", chol, P, chol, P) for P in (Pa, Pb))
    return float(h0 + np.sum(h1[0] * Pa) + np.sum(h1[1] * Pb) + 0.5 * (np.sum(c * c) - ex))


def ref_scf(h0, h1, chol, nelec, C0=None, maxit=400):
    """UHF-type SCF with damping + DIIS; returns (converged, Ca, Cb, energy)."""
    n = h1.shape[-1]
    if C0 is None:
        Ca = np.linalg.eigh(h1[0])[1][:, : nelec[0]]
        Cb = np.linalg.eigh(h1[1])[1][:, : nelec[1]]
    else:
        Ca, Cb = C0
    Pa, Pb = Ca @ Ca.T, Cb @ Cb.T
    hist = []
    for it in range(maxit):
        Fa, Fb = fock_build(h1[0], chol, Pa, Pa + Pb), fock_build(h1[1], chol, Pb, Pa + Pb)
        err = np.concatenate([(Fa @ Pa - Pa @ Fa).ravel(), (Fb @ Pb - Pb @ Fb).ravel()])
        hist.append((np.stack([Fa, Fb]), err))
        hist = hist[-8:]
        if len(hist) >= 3:
            B = np.array([[np.dot(a[1], b[1]) for b in hist] for a in hist])
            A = np.block([[B, -np.ones((len(hist), 1))], [-np.ones((1, len(hist))), np.zeros((1, 1))]])
            rhs = np.zeros(len(hist) + 1)
            rhs[-1] = -1
            try:
                c = np.linalg.lstsq(A, rhs, rcond=None)[0][:-1]
                F = sum(ci * h[0] for ci, h in zip(c, hist))
                Fa, Fb = F[0], F[1]
            except np.linalg.LinAlgError:
                pass
        Ca = np.linalg.eigh(Fa)[1][:, : nelec[0]]
        Cb = np.linalg.eigh(Fb)[1][:, : nelec[1]]
        Pa2, Pb2 = Ca @ Ca.T, Cb @ Cb.T
        d = max(np.max(np.abs(Pa2 - Pa)), np.max(np.abs(Pb2 - Pb)))
        Pa, Pb = Pa2, Pb2
        if d < 1e-13 and np.max(np.abs(err)) < 1e-9:
            # certify aufbau + gap at the converged Fock matrices
            Fa, Fb = fock_build(h1[0], chol, Pa, Pa + Pb), fock_build(h1[1], chol, Pb, Pa + Pb)
            ok = True
            for F_, C_, ne in ((Fa, Ca, nelec[0]), (Fb, Cb, nelec[1])):
                w, v = np.linalg.eigh(F_)
                if 0 < ne < n and w[ne] - w[ne - 1] < 1e-3:
                    ok = False
                # aufbau: the occupied space must be spanned by the LOWEST eigenvectors of the converged Fock matrix, otherwise the
                # solution is not a fixed point of the (aufbau) Roothaan map the property talks about (DIIS can land on such solutions
                # for unphysical random interactions)
                if 0 < ne < n and np.max(np.abs(v[:, :ne] @ v[:, :ne].T - C_ @ C_.T)) > 1e-8:
                    ok = False
            return ok, Ca, Cb, hf_energy(h0, h1, chol, Pa, Pb)
    return False, Ca, Cb, hf_energy(h0, h1, chol, Pa, Pb)


def _roothaan_expansion(h1, chol, nelec, Ca, Cb, steps=6):
    rng = np.random.default_rng(0)
    n = h1.shape[-1]
    Pa0, Pb0 = Ca @ Ca.T, Cb @ Cb.T

    def step(Pa, Pb):
        Fa, Fb = fock_build(h1[0], chol, Pa, Pa + Pb), fock_build(h1[1], chol, Pb, Pa + Pb)
        A = np.linalg.eigh(Fa)[1][:, : nelec[0]]
        B = np.linalg.eigh(Fb)[1][:, : nelec[1]]
        return A @ A.T, B @ B.T

    d = 1e-6
    Xa = rng.normal(size=(n, n))
    Xb = rng.normal(size=(n, n))
    Pa, Pb = Pa0 + d * (Xa + Xa.T), Pb0 + d * (Xb + Xb.T)
    prev = max(np.max(np.abs(Pa - Pa0)), np.max(np.abs(Pb - Pb0)))
    worst = 0.0
    for _ in range(steps):
        Pa, Pb = step(Pa, Pb)
        cur = max(np.max(np.abs(Pa - Pa0)), np.max(np.abs(Pb - Pb0)))
        if prev > 0 and cur > 1e-13:
            worst = max(worst, cur / prev)
        prev = max(cur, 1e-300)
    return worst


def selftest():
    """The independent SCF agrees with pyscf on the same integrals."""
    from pyscf import ao2mo, gto, scf

    rng = np.random.default_rng(7)
    n, ne = 4, (2, 2)
    h = rng.normal(size=(n, n))
    h = (h + h.T) / 2 + np.diag(np.arange(n) * 1.5)
    L = 0.3 * rng.normal(size=(2, n, n))
    L = (L + L.transpose(0, 2, 1)) / 2
    ok, Ca, Cb, e = ref_scf(0.0, np.stack([h, h]), L, ne)
    assert ok
    mol = gto.M(verbose=0)
    mol.nelectron = 4
    mol.incore_anyway = True
    mf = scf.RHF(mol)
    mf.get_hcore = lambda *a: h
    mf.get_ovlp = lambda *a: np.eye(n)
    mf._eri = ao2mo.restore(8, np.einsum("gij,gkl->ijkl", L, L), n)
    mf.conv_tol = 1e-12
    mf.kernel()
    assert abs(mf.e_tot - e) < 1e-8, (mf.e_tot, e)


# ---- generators -----------------------------------------------------------------------------------------------------------------
@st.composite
def scf_problem(draw, well_conditioned=False):
    kind = draw(st.sampled_from(["rhf", "uhf", "uhf"]))
    norb = draw(st.integers(2, 6 if not well_conditioned else 5))
    if kind == "rhf":
        na = nb = draw(st.integers(1, norb - 1))
    else:
        na = draw(st.integers(1, norb - 1))
        nb = draw(st.integers(0, na)) if not well_conditioned else draw(st.integers(1, na))
    gap = draw(st.sampled_from([1.0, 1.5, 3.0] if well_conditioned else [0.05, 0.3, 1.0, 3.0]))
    U = draw(gens.orthogonal(norb))
    ev = np.arange(norb) * gap + draw(gens.real((norb,))) * 0.2 * gap
    h = U @ np.diag(ev) @ U.T
    hb = h.copy()
    if kind == "uhf" and draw(st.booleans()):
        b = draw(gens.real((norb, norb)))
        hb = h + 0.2 * (b + b.T) / 2
    ng = draw(st.integers(1, 3))
    scale = draw(st.sampled_from([0.1, 0.3] if well_conditioned else [0.0, 0.1, 0.3, 0.8, 1.5]))
    c = draw(gens.real((ng, norb, norb))) * scale
    chol = (c + c.transpose(0, 2, 1)) / 2
    return {"kind": kind, "norb": norb, "nelec": [na, nb], "h1": np.stack([h, hb if kind == "uhf" else h]), "chol": chol, "h0": draw(st.sampled_from([0.0, 1.3])), "gap": gap, "scale": scale}


def lib_optimize(case, C0, n_iter):
    norb, nelec = int(case["norb"]), (int(case["nelec"][0]), int(case["nelec"][1]))
    hd = {"h0": float(case["h0"]), "h1": jnp.asarray(np.asarray(case["h1"], float)), "chol": jnp.asarray(np.asarray(case["chol"], float).reshape(-1, norb * norb)), "ene0": 0.0}
    # wave_data usually also carries "rdm1" (the density used for the mean-field shift), which need not be the density of the trial's own
    # orbitals (spin-averaged, from a correlated calculation, ...): the optimisation starts from the orbitals, whatever that entry holds
    extra = {}
    mode = case.get("rdm1_entry")
    if mode:
        da, db = np.asarray(C0[0])[:, : nelec[0]] @ np.asarray(C0[0])[:, : nelec[0]].T, np.asarray(C0[1])[:, : nelec[1]] @ np.asarray(C0[1])[:, : nelec[1]].T
        if mode == "spin-averaged":
            da = db = (da + db) / 2
        elif mode == "noisy":
            nz = np.asarray(case["rdm1_noise"], float)
            da, db = da + 0.3 * (nz[0] + nz[0].T), db + 0.3 * (nz[1] + nz[1].T)
        extra["rdm1"] = jnp.asarray(np.stack([da, db]))
    if case["kind"] == "rhf":
        tr = wavefunctions.rhf(norb, nelec, n_opt_iter=n_iter)
        wd = tr.optimize(hd, dict(extra, mo_coeff=jnp.asarray(C0[0])))
        C = np.asarray(wd["mo_coeff"])
        return C, C
    tr = wavefunctions.uhf(norb, nelec, n_opt_iter=n_iter)
    wd = tr.optimize(hd, dict(extra, mo_coeff=[jnp.asarray(C0[0]), jnp.asarray(C0[1])]))
    return np.asarray(wd["mo_coeff"][0]), np.asarray(wd["mo_coeff"][1])


def rotate(C_full, nocc, angle, mix):
    """Rotate the occupied space of an orthogonal basis C_full into the virtual one by `angle` along the direction `mix`."""
    n = C_full.shape[0]
    if nocc == 0 or nocc == n:
        return C_full[:, :nocc]
    K = np.zeros((n, n))
    m = np.asarray(mix, float)[:nocc, : n - nocc]
    nm = np.linalg.norm(m)
    if nm == 0:
        return C_full[:, :nocc]
    K[:nocc, nocc:] = m / nm * angle
    K = K - K.T
    import scipy.linalg

    return (C_full @ scipy.linalg.expm(K))[:, :nocc]


# ---- 1. orthonormal output for every input ------------------------------------------------------------------------------------------
@st.composite
def ortho_case(draw, tier="quick"):
    p = draw(scf_problem())
    n, (na, nb) = p["norb"], p["nelec"]
    p["C0a"] = draw(gens.real((n, na))) * draw(st.sampled_from([1.0, 1e-3, 30.0])) + np.eye(n, na) * draw(st.sampled_from([0.0, 1.0]))
    p["C0b"] = draw(gens.real((n, nb)))
    p["n_iter"] = draw(st.sampled_from([1, 2, 30]))
    return p


def ortho_body(ctx, case):
    n, (na, nb) = int(case["norb"]), (int(case["nelec"][0]), int(case["nelec"][1]))
    ctx.case(case, nontrivial=bool(np.any(np.asarray(case["chol"]))), classes=["orthonormal:" + case["kind"], f"n_opt_iter={case['n_iter']}"])
    C0 = [np.asarray(case["C0a"], float).reshape(n, na), np.asarray(case["C0b"], float).reshape(n, nb) if case["kind"] == "uhf" else np.asarray(case["C0a"], float).reshape(n, na)]
    try:
        Ca, Cb = lib_optimize(case, C0, int(case["n_iter"]))
    except Exception as e:
        ctx.fail(f"optimize:raised-{type(e).__name__}:{case['kind']}", case, f"{type(e).__name__}: {str(e)[:300]}")
        return
    for lab, C, ne in (("up", Ca, na), ("dn", Cb, nb)):
        if C.shape != (n, ne):
            ctx.fail(f"optimize:shape:{case['kind']}", case, f"{lab} orbitals have shape {C.shape}, expected {(n, ne)}")
            return
        if not np.all(np.isfinite(C)):
            ctx.fail(f"optimize:not-finite:{case['kind']}", case, f"{lab} orbitals contain nan/inf")
            return
        if ne:
            ctx.check_close(f"optimize:not-orthonormal:{case['kind']}", case, f"C^T C - 1 ({lab})", C.T @ C, np.eye(ne), 1e-10, 1.0)


# ---- 2. fixed point / 3. energy from a perturbed guess ----------------------------------------------------------------------------------
@st.composite
def fixed_case(draw, tier="quick"):
    p = draw(scf_problem())
    p["n_iter"] = draw(st.sampled_from([1, 30]))
    p["rdm1_entry"] = draw(st.sampled_from([None, "own", "spin-averaged", "noisy"]))
    p["rdm1_noise"] = draw(gens.real((2, p["norb"], p["norb"])))
    return p


def fixed_body(ctx, case):
    n, nelec = int(case["norb"]), (int(case["nelec"][0]), int(case["nelec"][1]))
    h1, chol = np.asarray(case["h1"], float), np.asarray(case["chol"], float)
    ok, Ca, Cb, e_ref = ref_scf(float(case["h0"]), h1, chol, nelec)
    ctx.case(case, nontrivial=bool(np.any(chol)), classes=["fixed-point:" + case["kind"], f"n_opt_iter={case['n_iter']}", f"scale={case['scale']}", f"wave_data-rdm1={case.get('rdm1_entry')}"])
    if not ok:
        ctx.count("skipped:reference-scf-not-certified")
        return
    if case["kind"] == "rhf" and np.max(np.abs(Ca @ Ca.T - Cb @ Cb.T)) > 1e-9:
        ctx.count("skipped:reference-solution-spin-broken-for-rhf")
        return
    try:
        Ca2, Cb2 = lib_optimize(case, [Ca, Cb], int(case["n_iter"]))
    except Exception as e:
        ctx.fail(f"optimize:raised-{type(e).__name__}:{case['kind']}", case, f"{type(e).__name__}: {str(e)[:300]}")
        return
    # how far the certified reference itself is from the exact fixed point of the plain Roothaan map (one step of the independent model),
    # and how fast that map expands deviations around it: n iterations turn delta0 into at most delta0 * n * max(1, rho)^n
    n_it = int(case["n_iter"])
    Pa0, Pb0 = Ca @ Ca.T, Cb @ Cb.T
    Fa, Fb = fock_build(h1[0], chol, Pa0, Pa0 + Pb0), fock_build(h1[1], chol, Pb0, Pa0 + Pb0)
    A1, B1 = np.linalg.eigh(Fa)[1][:, : nelec[0]], np.linalg.eigh(Fb)[1][:, : nelec[1]]
    delta0 = max(float(np.max(np.abs(A1 @ A1.T - Pa0))), float(np.max(np.abs(B1 @ B1.T - Pb0))), 1e-14)
    drift = delta0
    if n_it > 1:
        rho = _roothaan_expansion(h1, chol, nelec, Ca, Cb)
        ctx.err("roothaan expansion factor (informational)", rho)
        drift = delta0 * n_it * max(rho, 1.0) ** n_it
        if drift > 1e-7:
            # plain Roothaan iteration amplifies the reference's own residual (or round-off) beyond what the comparison could resolve
            ctx.count("skipped:solution-unstable-under-plain-roothaan-iteration")
            return
    tol = (1e-8 if n_it == 1 else 1e-6) + 10 * drift
    ctx.check_close(f"fixed-point:occupied-space-moved:{case['kind']}", case, f"occupied projector after optimize - converged projector ({case['kind']}, {case['n_iter']} it)", np.stack([Ca2 @ Ca2.T, Cb2 @ Cb2.T]), np.stack([Ca @ Ca.T, Cb @ Cb.T]), tol, 1.0)


@st.composite
def energy_case(draw, tier="quick"):
    p = draw(scf_problem(well_conditioned=True))
    n = p["norb"]
    p["angle"] = draw(st.sampled_from([0.0, 0.1, 0.3, 0.6]))
    p["mix_a"] = draw(gens.real((n, n)))
    p["mix_b"] = draw(gens.real((n, n)))
    return p


def energy_body(ctx, case):
    n, nelec = int(case["norb"]), (int(case["nelec"][0]), int(case["nelec"][1]))
    h1, chol = np.asarray(case["h1"], float), np.asarray(case["chol"], float)
    ok, Ca, Cb, e_ref = ref_scf(float(case["h0"]), h1, chol, nelec)
    ctx.case(case, nontrivial=bool(np.any(chol)) and case["angle"] > 0, classes=["energy:" + case["kind"], f"angle={case['angle']}"])
    if not ok:
        ctx.count("skipped:reference-scf-not-certified")
        return
    if case["kind"] == "rhf" and np.max(np.abs(Ca @ Ca.T - Cb @ Cb.T)) > 1e-9:
        ctx.count("skipped:reference-solution-spin-broken-for-rhf")
        return

    def full(C):
        q, _ = np.linalg.qr(np.hstack([C, np.eye(n)]))
        return q[:, :n]

    G = [rotate(full(Ca), nelec[0], float(case["angle"]), case["mix_a"]), rotate(full(Cb), nelec[1], float(case["angle"]), case["mix_b"] if case["kind"] == "uhf" else case["mix_a"])]
    if case["kind"] == "rhf":
        G[1] = G[0]
    try:
        Ca2, Cb2 = lib_optimize(case, G, 30)
    except Exception as e:
        ctx.fail(f"optimize:raised-{type(e).__name__}:{case['kind']}", case, f"{type(e).__name__}: {str(e)[:300]}")
        return
    e_lib = hf_energy(float(case["h0"]), h1, chol, Ca2 @ Ca2.T, Cb2 @ Cb2.T)
    if abs(e_lib - e_ref) > 1e-7 * max(1.0, abs(e_ref)):
        # "well-conditioned" has to include the algorithm: plain Roothaan iteration (no damping, no DIIS - what optimize documents) oscillates
        # between two densities for some problems and guesses. An independent implementation of that same iteration from the same guess tells
        # an intrinsic oscillation (skip, counted) from a defect of the library's iteration (violation).
        Pa, Pb = G[0][:, : nelec[0]] @ G[0][:, : nelec[0]].T, G[1][:, : nelec[1]] @ G[1][:, : nelec[1]].T
        for _ in range(30):
            Fa, Fb = fock_build(h1[0], chol, Pa, Pa + Pb), fock_build(h1[1], chol, Pb, Pa + Pb)
            A_, B_ = np.linalg.eigh(Fa)[1][:, : nelec[0]], np.linalg.eigh(Fb)[1][:, : nelec[1]]
            Pa, Pb = A_ @ A_.T, B_ @ B_.T
        e_model = hf_energy(float(case["h0"]), h1, chol, Pa, Pb)
        if abs(e_model - e_ref) > 1e-7 * max(1.0, abs(e_ref)):
            ctx.count("skipped:plain-roothaan-model-does-not-converge-from-this-guess")
            return
    ctx.check_close(f"energy:differs-from-independent-scf:{case['kind']}", case, f"HF energy of optimize output - independent SCF ({case['kind']})", e_lib, e_ref, 1e-7, max(1.0, abs(e_ref)))


# ---- 4. eigen-decomposition derivative ---------------------------------------------------------------------------------------------------
@st.composite
def eigh_case(draw, tier="quick"):
    n = draw(st.integers(2, 6))
    U = draw(gens.orthogonal(n))
    spec = draw(st.sampled_from(["generic", "generic", "near-degenerate", "degenerate", "all-equal"]))
    ev = np.sort(draw(gens.real((n,))) * 2 + np.arange(n))
    if spec == "near-degenerate":
        ev[1] = ev[0] + draw(st.sampled_from([3e-3, 1e-3, 3e-4, 1e-6, 1e-9, 1e-12]))
    elif spec == "degenerate":
        ev[1] = ev[0]
        if n > 3 and draw(st.booleans()):
            ev[3] = ev[2]
    elif spec == "all-equal":
        ev[:] = ev[0]
    t = draw(gens.real((n, n)))
    return {"n": n, "U": U, "ev": ev, "spec": spec, "tangent": (t + t.T) / 2}


def eigh_body(ctx, case):
    n = int(case["n"])
    U, ev = np.asarray(case["U"], float), np.asarray(case["ev"], float)
    A = U @ np.diag(ev) @ U.T
    A = (A + A.T) / 2
    T = np.asarray(case["tangent"], float)
    ctx.case(case, nontrivial=n >= 3, classes=["eigh:" + case["spec"], f"eigh:n={n}"])
    try:
        (w, v), (dw, dv) = jax.jvp(linalg_utils._eigh, (jnp.asarray(A),), (jnp.asarray(T),))
        w, v, dw, dv = map(np.asarray, (w, v, dw, dv))
    except Exception as e:
        ctx.fail(f"eigh:raised-{type(e).__name__}", case, f"{type(e).__name__}: {e}")
        return
    if not (np.all(np.isfinite(dw)) and np.all(np.isfinite(dv)) and np.all(np.isfinite(w)) and np.all(np.isfinite(v))):
        ctx.fail(f"eigh:derivative-not-finite:{case['spec']}", case, "jvp of _eigh contains nan/inf")
        return
    ctx.check_close("eigh:primal-eigenvalues", case, "eigenvalues", w, np.linalg.eigvalsh(A), 1e-10, max(1.0, float(np.max(np.abs(ev)))))
    ctx.check_close("eigh:primal-decomposition", case, "v diag(w) v^T - A", v @ np.diag(w) @ v.T, A, 1e-10, max(1.0, float(np.max(np.abs(ev)))))
    gaps = np.diff(np.sort(np.linalg.eigvalsh(A)))
    if gaps.size and np.min(gaps) >= 2e-4:  # 20x the routine's own degeneracy threshold (1e-5): still "non-degenerate"
        (w2, v2), (dw2, dv2) = jax.jvp(jnp.linalg.eigh, (jnp.asarray(A),), (jnp.asarray(T),))
        w2, v2, dw2, dv2 = map(np.asarray, (w2, v2, dw2, dv2))
        sc = float(np.max(np.abs(T))) / float(np.min(gaps)) + 1.0
        ctx.check_close("eigh:eigenvalue-derivative", case, "d(eigenvalues) vs jnp.linalg.eigh", dw, dw2, 1e-9, sc)
        sgn = np.sign(np.sum(v * v2, axis=0))
        ctx.check_close("eigh:eigenvector-derivative", case, "d(eigenvectors) vs jnp.linalg.eigh (sign gauge fixed)", dv * sgn[None, :], dv2, 1e-8, sc)
        ctx.count("eigh:compared-with-standard-derivative")
    else:
        # eigenvalue derivatives of a (nearly) degenerate pair are still well defined as a set; only finiteness is required
        ctx.count("eigh:finiteness-only")
        if np.max(np.abs(dv)) > 1e8 * (1.0 + float(np.max(np.abs(T)))):
            ctx.fail(f"eigh:derivative-blows-up:{case['spec']}", case, f"|d eigenvectors| = {np.max(np.abs(dv)):.3e} for a tangent of size {np.max(np.abs(T)):.3e}")


SUBCHECKS = [
    SubCheck("orthonormal_output", body=ortho_body, strategy=ortho_case, examples={"quick": 30, "thorough": 400}, shards={"quick": 4, "thorough": 8}, shrink=False),
    SubCheck("converged_solution_is_fixed_point", body=fixed_body, strategy=fixed_case, examples={"quick": 25, "thorough": 300}, shards={"quick": 4, "thorough": 8}, shrink=False),
    SubCheck("energy_matches_independent_scf", body=energy_body, strategy=energy_case, examples={"quick": 20, "thorough": 250}, shards={"quick": 4, "thorough": 8}, shrink=False),
    SubCheck("eigh_derivative", body=eigh_body, strategy=eigh_case, examples={"quick": 200, "thorough": 3000}, shards={"quick": 2, "thorough": 4}),
]
