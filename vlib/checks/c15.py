"""C15 — observables are covariant under orthogonal orbital rotations; rotate_orbs is the congruence C^T X C."""
import numpy as np

from vlib import env

env.setup()
import hypothesis
import jax.numpy as jnp
from hypothesis import strategies as st

from ad_afqmc import hamiltonian as hmod
from vlib import gens, measure
from vlib.harness import SubCheck

PROPERTY = "C15"
LEVEL = "exploration"
RULE = (
    "Hypothesis draws a Hamiltonian (spin-dependent h1, 1..3 Cholesky matrices) and a matrix C: invertible non-symmetric (identity + noise, "
    "permuted/scaled columns) for the congruence clause, orthogonal (QR of a generated matrix, products with permutations / reflections) for the "
    "covariance clause; trial kinds rhf, uhf, ghf, noci, GCISD (orbital-based: orbitals transformed with C^T) and multislater (rotation C followed "
    "by C^T must restore every measurement); complex walkers transformed with C^T. Oracles: numpy C^T X C for each h1[s] and each Cholesky matrix; "
    "energies, force biases and overlaps before vs after the rotation. Non-trivial = C is neither a signed permutation nor symmetric (congruence), "
    "C not a signed permutation (covariance), Cholesky vectors non-zero."
)
ASSUMPTIONS = [
    "rotation-covariance tolerance 1e-9 relative to the magnitude of the compared quantity and to 1/|overlap| conditioning (cases with |overlap| < 1e-3 x Hadamard scale rejected and counted)",
    "GCISD energy uses the library's finite-difference second derivative: tolerance 1e-6 for that kind",
]


def _is_signed_perm(C):
    A = np.abs(C)
    return bool(np.allclose(A, np.round(A), atol=1e-9) and np.allclose(A.sum(0), 1) and np.allclose(A.sum(1), 1))


@st.composite
def invertible(draw, n):
    A = draw(gens.real((n, n))) * draw(st.sampled_from([0.5, 1.0, 2.0])) + np.eye(n)
    if abs(np.linalg.det(A)) < 1e-2:
        A = np.eye(n) + np.triu(np.ones((n, n)), 1) * 0.5
    if draw(st.booleans()):
        A = A[:, list(draw(st.permutations(range(n))))]
    return A


@st.composite
def congruence_case(draw, tier="quick"):
    norb = draw(st.integers(1, 6))
    ham = draw(gens.hamiltonian(norb, spin_dependent=True))
    c = {"norb": norb, "ham": ham, "C": draw(invertible(norb))}
    # the congruence clause is a statement about the routine as a map on matrices; the repository's own tests hand it non-symmetric
    # one-body and Cholesky matrices, so half of the cases add an antisymmetric part (C^T X C and C^T X^T C then differ)
    if draw(st.booleans()):
        c["antisym"] = draw(gens.real((1 + np.asarray(ham["chol"]).shape[0], norb, norb)))
    return c


def congruence_body(ctx, case):
    norb = int(case["norb"])
    C = np.asarray(case["C"], float)
    h1 = np.asarray(case["ham"]["h1"], float)
    chol = np.asarray(case["ham"]["chol"], float)
    if case.get("antisym") is not None:
        A = np.asarray(case["antisym"], float)
        A = A - A.transpose(0, 2, 1)
        h1 = h1 + A[:1]
        chol = chol + A[1:]
    nonsym = bool(norb >= 2 and np.max(np.abs(chol - chol.transpose(0, 2, 1)), initial=0.0) > 1e-3)
    ctx.case(case, nontrivial=(not _is_signed_perm(C)) and (not np.allclose(C, C.T)) and norb >= 2, classes=[f"norb={norb}", "C:symmetric" if np.allclose(C, C.T) else "C:non-symmetric", "X:non-symmetric" if nonsym else "X:symmetric"])
    H = hmod.hamiltonian(norb)
    hd = {"h0": 0.1, "h1": jnp.asarray(h1), "chol": jnp.asarray(chol.reshape(-1, norb * norb)), "ene0": 0.0}
    try:
        out = H.rotate_orbs(dict(hd), jnp.asarray(C))
    except Exception as e:
        ctx.fail(f"rotate:raised-{type(e).__name__}", case, f"{type(e).__name__}: {e}")
        return
    sc = max(1.0, float(np.max(np.abs(C))) ** 2)
    for s in range(2):
        ctx.check_close(f"rotate:h1[{s}]-not-congruence", case, f"h1[{s}] - C^T h C", np.asarray(out["h1"][s]), C.T @ h1[s] @ C, 1e-12, sc * max(1.0, float(np.max(np.abs(h1)))) * norb**2)
    got = np.asarray(out["chol"]).reshape(-1, norb, norb)
    want = np.stack([C.T @ L @ C for L in chol])
    ctx.check_close("rotate:chol-not-congruence", case, "chol - C^T L C", got, want, 1e-12, sc * max(1.0, float(np.max(np.abs(chol)))) * norb**2)
    if float(np.asarray(out["h0"])) != 0.1:
        ctx.fail("rotate:h0-changed", case, f"h0 {out['h0']}")


# ---- covariance of measurements ------------------------------------------------------------------------
COV_KINDS = ["rhf", "uhf", "ghf", "noci", "GCISD", "multislater"]
COV_SHAPES = {"rhf": [(3, (2, 2)), (4, (2, 2))], "uhf": [(3, (2, 1)), (4, (2, 2))], "ghf": [(3, (2, 1))], "noci": [(3, (2, 1))], "GCISD": [(3, (1, 1))], "multislater": [(3, (2, 1))]}


@st.composite
def cov_case(draw, tier, shard=0, nshards=1):
    kinds = measure.kinds_for_shard(COV_KINDS, shard, nshards)
    c = draw(measure.measurement_case(tier, kinds, with_ham=True, restricted_walker=False, shapes=COV_SHAPES))
    c["C"] = draw(gens.orthogonal(c["norb"]))
    return c


def _rotate_params(kind, params, C):
    Ct = C.T
    p = dict(params)
    if kind == "rhf":
        p["mo_coeff"] = Ct @ np.asarray(params["mo_coeff"])
    elif kind == "uhf":
        p["mo_coeff"] = [Ct @ np.asarray(params["mo_coeff"][0]), Ct @ np.asarray(params["mo_coeff"][1])]
    elif kind in ("ghf", "GCISD"):
        n = C.shape[0]
        B = np.zeros((2 * n, 2 * n))
        B[:n, :n] = Ct
        B[n:, n:] = Ct
        p["mo_coeff"] = B @ np.asarray(params["mo_coeff"])
    elif kind == "noci":
        p["dets_up"] = np.stack([Ct @ d for d in np.asarray(params["dets_up"])])
        p["dets_dn"] = np.stack([Ct @ d for d in np.asarray(params["dets_dn"])])
    return p


def _measure(kind, norb, nelec, params, ham, up, dn):
    trial, wd, extra = gens.build_trial(kind, norb, nelec, params)
    H, hd = gens.build_ham(norb, ham, trial, wd)
    ju, jd = jnp.asarray(up), jnp.asarray(dn)
    return (complex(trial._calc_overlap(ju, jd, wd)), complex(trial._calc_energy(ju, jd, hd, wd)), np.asarray(trial._calc_force_bias(ju, jd, hd, wd)))


def cov_body(ctx, case):
    kind, norb, nelec = case["kind"], int(case["norb"]), (int(case["nelec"][0]), int(case["nelec"][1]))
    C = np.asarray(case["C"], float)
    ham = case["ham"]
    up = np.asarray(case["walker"]["up"], complex).reshape(norb, nelec[0])
    dn = np.asarray(case["walker"]["dn"], complex).reshape(norb, nelec[1])
    s = measure.Setup(case)
    if s.cond > 1e3:
        ctx.count("skipped:reference-block-ill-conditioned")
        return
    if not (s.scale > 0 and abs(s.ovlp_exact) >= 1e-3 * s.scale):
        ctx.count("rejected:overlap-too-small")
        hypothesis.assume(False)
    ctx.case(case, nontrivial=(not _is_signed_perm(C)) and bool(np.any(np.asarray(ham["chol"]))), classes=["cov:" + kind, "C:signed-permutation" if _is_signed_perm(C) else "C:generic"])
    # rotate the Hamiltonian with the library's routine
    H = hmod.hamiltonian(norb)
    hd0 = {"h0": float(ham["h0"]), "h1": jnp.asarray(np.asarray(ham["h1"], float)), "chol": jnp.asarray(np.asarray(ham["chol"], float).reshape(-1, norb * norb)), "ene0": 0.0}
    rot = H.rotate_orbs(dict(hd0), jnp.asarray(C))
    ham_r = {"h0": float(ham["h0"]), "h1": np.asarray(rot["h1"]), "chol": np.asarray(rot["chol"]).reshape(-1, norb, norb)}
    try:
        o0, e0, f0 = _measure(kind, norb, nelec, case["params"], ham, up, dn)
        if kind == "multislater":
            # determinant lists live in a fixed orbital basis: rotate there and back, everything must be restored
            back = H.rotate_orbs({"h0": float(ham["h0"]), "h1": jnp.asarray(ham_r["h1"]), "chol": jnp.asarray(ham_r["chol"].reshape(-1, norb * norb)), "ene0": 0.0}, jnp.asarray(C.T))
            ham_b = {"h0": float(ham["h0"]), "h1": np.asarray(back["h1"]), "chol": np.asarray(back["chol"]).reshape(-1, norb, norb)}
            o1, e1, f1 = _measure(kind, norb, nelec, case["params"], ham_b, up, dn)
        else:
            o1, e1, f1 = _measure(kind, norb, nelec, _rotate_params(kind, case["params"], C), ham_r, C.T @ up, C.T @ dn)
    except Exception as e:
        ctx.fail(f"covariance:raised-{type(e).__name__}:{kind}", case, f"{type(e).__name__}: {e}")
        return
    amp = s.scale / abs(s.ovlp_exact) * max(1.0, s.cond) ** 2
    tol_e = 1e-6 if kind in gens.AD_KINDS else 1e-9
    hn = abs(float(ham["h0"])) + float(np.sum(np.abs(ham["h1"]))) + float(np.sum(np.sum(np.abs(np.asarray(ham["chol"])), axis=(1, 2)) ** 2))
    ctx.check_close(f"covariance:overlap:{kind}", case, f"overlap factor - 1 [{kind}]", o1, o0, 1e-10, s.scale * max(1.0, s.cond) ** 2)
    ctx.check_close(f"covariance:energy:{kind}", case, f"energy [{kind}]", e1, e0, tol_e, (abs(e0) + hn) * amp * (1e3 if kind in gens.AD_KINDS else 1.0))
    ln = float(np.max(np.sum(np.abs(np.asarray(ham["chol"])), axis=(1, 2)))) if np.asarray(ham["chol"]).size else 0.0
    ctx.check_close(f"covariance:force-bias:{kind}", case, f"force bias [{kind}]", f1, f0, 1e-9, (float(np.max(np.abs(f0))) + ln) * amp)


SUBCHECKS = [
    SubCheck("rotate_orbs_is_congruence", body=congruence_body, strategy=congruence_case, examples={"quick": 150, "thorough": 2000}, shards={"quick": 2, "thorough": 4}),
    SubCheck("measurements_covariant", body=cov_body, strategy=cov_case, examples={"quick": 40, "thorough": 500}, shards={"quick": 6, "thorough": 6}),
]
