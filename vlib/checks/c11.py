"""C11 — determinant-list trials mean what they say; an exact trial gives zero variance."""
import os
import struct
import tempfile

import numpy as np

from vlib import env

env.setup()
import hypothesis
import jax.numpy as jnp
from hypothesis import strategies as st

from ad_afqmc import hamiltonian as hmod
from ad_afqmc import propagation, pyscf_interface, sampling, wavefunctions
from vlib import gens, measure, runs
from vlib.fockref import fock, selftest as _fock_selftest
from vlib.harness import SubCheck

PROPERTY = "C11"
LEVEL = "exploration"
RULE = (
    "Hypothesis draws CI vectors over norb <= 4 (all or random subsets of the determinants of the (n_up, n_dn) sector, random coefficients, random list "
    "order so that the first = reference determinant is usually not aufbau, closed and open shells, n_dn >= 1) and complex walkers. "
    "(a) overlap / energy / force bias of the assembled multislater trial vs Fock-space values of sum_i c_i|D_i>, and the same after permuting the list "
    "(other reference) and after raising the excitation cut-off; (b) Dice-layout binary files written from the state and read back by read_dets / "
    "get_excitations(fname=...), plus truncated / count-mutated files which must raise; (c) full exact eigenvectors of random Hamiltonians (Fock-space eigh) "
    "and of H2 / H4 via pyscf FCI + get_fci_state: local energy of random walkers = eigenvalue; (d) complete driver.afqmc runs with the exact trial: every "
    "block energy in samples_raw.dat = eigenvalue. Non-trivial = >= 2 determinants, reference not aufbau or list not sorted, at least one determinant "
    "with alpha and beta excitation ranks both > 0 (a); distinct by SHA-1 of inputs."
)
ASSUMPTIONS = [
    "multislater local energies use the library's finite-difference second derivative (eps 1e-4): tolerance 1e-5 x E_scale; driver block energies are stored as float32: tolerance 1e-4 x max(1,|E0|)",
    "walkers with an ill-conditioned reference block (round-off amplification > 1e4) are skipped and counted",
]
SHAPES = [(3, (2, 1)), (4, (2, 2)), (4, (2, 1)), (3, (1, 1)), (4, (3, 1))]
QUICK_SHAPES = [(3, (2, 1)), (4, (2, 2))]


def selftest():
    _fock_selftest()


def _state_from(params):
    return {(tuple(int(x) for x in d[0]), tuple(int(x) for x in d[1])): float(c) for d, c in zip(params["dets"], np.asarray(params["coeffs"], float))}


def _build(norb, nelec, state_items, mx):
    state = dict(state_items)
    Acre, Ades, Bcre, Bdes, coeff, ref_det = pyscf_interface.get_excitations(state=state, max_excitation=mx, ndets=len(state))
    wd = {"Acre": Acre, "Ades": Ades, "Bcre": Bcre, "Bdes": Bdes, "coeff": coeff, "ref_det": ref_det}
    return wavefunctions.multislater(norb, nelec, max_excitation=mx), wd


def _need(items):
    d0 = items[0][0]
    return int(max(sum(abs(np.array(d[0]) - np.array(d0[0]))) // 2 + sum(abs(np.array(d[1]) - np.array(d0[1]))) // 2 for d, _ in items))


# ---- (a) list semantics -----------------------------------------------------------------------------------
@st.composite
def list_case(draw, tier="quick"):
    norb, nelec = draw(st.sampled_from(QUICK_SHAPES if tier == "quick" else SHAPES))
    params = draw(gens.trial_params("multislater", norb, nelec))
    w = draw(gens.walker(norb, nelec, frame=gens.reference_frame("multislater", norb, nelec, params)))
    perm = draw(st.permutations(range(len(params["dets"]))))
    ham = draw(gens.hamiltonian(norb, spin_dependent=draw(st.booleans())))
    return {"kind": "multislater", "norb": norb, "nelec": list(nelec), "params": params, "walker": w, "restricted": False, "ham": ham, "perm": list(perm), "extra_cut": draw(st.integers(1, 2))}


def list_body(ctx, case):
    s = measure.Setup(case)
    norb, nelec = s.norb, s.nelec
    items = list(_state_from(case["params"]).items())
    perm = [int(i) for i in case["perm"]]
    items_p = [items[i] for i in perm]
    d0 = items[0][0]
    aufbau = list(d0[0]) == [1] * nelec[0] + [0] * (norb - nelec[0]) and list(d0[1]) == [1] * nelec[1] + [0] * (norb - nelec[1])
    mixed = any((np.array(d[0]) != np.array(d0[0])).any() and (np.array(d[1]) != np.array(d0[1])).any() for d, _ in items)
    ctx.case(case, nontrivial=len(items) >= 2 and (not aufbau or perm != sorted(perm)) and mixed, classes=["reference:" + ("aufbau" if aufbau else "non-aufbau"), f"ndets={min(len(items), 8)}", "mixed-alpha-beta-excitation" if mixed else "single-spin-excitations"])
    # amplification for the permuted reference too
    s_p = measure.Setup(dict(case, params={"dets": [[list(d[0]), list(d[1])] for d, _ in items_p], "coeffs": np.array([c for _, c in items_p]), "max_excitation": max(1, _need(items_p))}))
    if max(s.cond, s_p.cond) > measure.COND_MAX:
        ctx.count("skipped:reference-block-ill-conditioned")
        return
    if not (s.scale > 0 and abs(s.ovlp_exact) >= 1e-3 * s.scale):
        ctx.count("rejected:overlap-too-small")
        hypothesis.assume(False)
    H = s.exact_hamiltonian()
    Hphi = H @ s.phi
    e_exact = np.vdot(s.psi, Hphi) / s.ovlp_exact
    f_exact = s.exact_force_bias()
    amp = max(1.0, s.cond, s_p.cond) ** 2
    hn = abs(float(case["ham"]["h0"])) + float(np.sum(np.abs(case["ham"]["h1"]))) + float(np.sum(np.sum(np.abs(np.asarray(case["ham"]["chol"])), axis=(1, 2)) ** 2))
    nchol = np.asarray(case["ham"]["chol"]).shape[0]
    escale = (float(np.sum(np.abs(s.psi) * np.abs(Hphi))) + 1e-3 * hn * s.scale) / abs(s.ovlp_exact) * amp + 1e-1 * nchol * (s.scale / abs(s.ovlp_exact)) * amp
    ln = float(np.max(np.sum(np.abs(np.asarray(case["ham"]["chol"])), axis=(1, 2))))
    fscale = (float(np.max(np.abs(f_exact))) + ln) * s.scale / abs(s.ovlp_exact) * amp
    variants = [("as-given", items, max(1, _need(items))), ("permuted", items_p, max(1, _need(items_p))), ("larger-cutoff", items, max(1, _need(items)) + int(case["extra_cut"]))]
    for label, it, mx in variants:
        try:
            trial, wd = _build(norb, nelec, it, mx)
            H_, hd = gens.build_ham(norb, case["ham"], trial, wd)
            ov = complex(trial._calc_overlap(s.jup, s.jdn, wd))
            en = complex(trial._calc_energy(s.jup, s.jdn, hd, wd))
            fb = np.asarray(trial._calc_force_bias(s.jup, s.jdn, hd, wd))
        except Exception as e:
            ctx.fail(f"list:{label}:raised-{type(e).__name__}", case, f"{type(e).__name__}: {e}")
            return
        ref_tag = "aufbau-ref" if (label != "permuted" and aufbau) else "any-ref"
        ctx.check_close(f"list:{label}:overlap:{ref_tag}", case, f"overlap ({label})", ov, s.ovlp_exact, 1e-10, s.scale * amp)
        ctx.check_close(f"list:{label}:energy:{ref_tag}", case, f"energy ({label})", en, e_exact, 1e-5, escale)
        ctx.check_close(f"list:{label}:force-bias:{ref_tag}", case, f"force bias ({label})", fb, f_exact, 1e-9, fscale)
    # closed shell: the same lists through the restricted-walker entry points (one matrix for both spins), which handle the reference on
    # their own; the exact state is then slater(up, up)
    if nelec[0] == nelec[1]:
        up = np.asarray(s.jup)
        phi_r = s.F.slater(up, up)
        ov_r = np.vdot(s.psi, phi_r)
        sc_r = float(np.sum(np.abs(s.psi) * np.abs(phi_r)))
        for label, it, mx in variants[:2]:
            cond_r = gens.reference_block_cond("multislater", norb, nelec, {"dets": [[list(d[0]), list(d[1])] for d, _ in it]}, up, up)
            if cond_r > measure.COND_MAX or not (sc_r > 0 and abs(ov_r) >= 1e-3 * sc_r):
                ctx.count("skipped:restricted-entry-ill-conditioned")
                continue
            amp_r = max(1.0, cond_r) ** 2
            # (the restricted entry points see the average of the two one-body matrices - exact for them, as C02 states)
            h1_ = np.asarray(case["ham"]["h1"], float)
            H_r = s.F.hamiltonian(float(case["ham"]["h0"]), np.stack([(h1_[0] + h1_[1]) / 2] * 2), np.asarray(case["ham"]["chol"], float))
            Hphi_r = H_r @ phi_r
            e_r = np.vdot(s.psi, Hphi_r) / ov_r
            chol = np.asarray(case["ham"]["chol"], float)
            f_r = np.array([np.vdot(s.psi, s.F.one_body(L, L) @ phi_r) / ov_r for L in chol])
            try:
                trial, wd = _build(norb, nelec, it, mx)
                H_, hd = gens.build_ham(norb, case["ham"], trial, wd)
                ov = complex(trial._calc_overlap_restricted(s.jup, wd))
                en = complex(trial._calc_energy_restricted(s.jup, hd, wd))
                fb = np.asarray(trial._calc_force_bias_restricted(s.jup, hd, wd))
            except Exception as e:
                ctx.fail(f"list:{label}:restricted-entry:raised-{type(e).__name__}", case, f"{type(e).__name__}: {e}")
                return
            ctx.count("list:restricted-entry-checked")
            escale_r = (float(np.sum(np.abs(s.psi) * np.abs(Hphi_r))) + 1e-3 * hn * sc_r) / abs(ov_r) * amp_r + 1e-1 * nchol * (sc_r / abs(ov_r)) * amp_r
            fscale_r = (float(np.max(np.abs(f_r))) + ln) * sc_r / abs(ov_r) * amp_r
            ctx.check_close(f"list:{label}:restricted-entry:overlap", case, f"overlap, restricted entry ({label})", ov, ov_r, 1e-10, sc_r * amp_r)
            ctx.check_close(f"list:{label}:restricted-entry:energy", case, f"energy, restricted entry ({label})", en, e_r, 1e-5, escale_r)
            ctx.check_close(f"list:{label}:restricted-entry:force-bias", case, f"force bias, restricted entry ({label})", fb, f_r, 1e-9, fscale_r)


# ---- (b') FCI vector -> determinant list ------------------------------------------------------------------------------
@st.composite
def fcistate_case(draw, tier="quick"):
    import math

    norb = draw(st.integers(2, 5))
    na = draw(st.integers(1, norb))
    nb = draw(st.integers(1, na))
    shape = (math.comb(norb, na), math.comb(norb, nb))
    ci = draw(gens.real(shape))
    # some exactly vanishing coefficients, and distinct magnitudes (ties at a cut would make "the k largest" ambiguous)
    mask = draw(hnp_mask(shape))
    ci = np.where(mask, ci, 0.0) + 1e-3 * np.arange(ci.size).reshape(shape) * (np.asarray(mask, float))
    return {"norb": norb, "nelec": [na, nb], "ci": ci, "ndets": draw(st.sampled_from([None, None, 1, 2, 3, 5, 1000])), "tol": draw(st.sampled_from([1e-12, 1e-4, 0.3]))}


def hnp_mask(shape):
    import hypothesis.extra.numpy as hnp

    return hnp.arrays(np.bool_, shape, elements=st.sampled_from([True, True, True, False]), fill=st.nothing())


def fcistate_body(ctx, case):
    from pyscf import fci
    from pyscf.fci import cistring

    norb, nelec = int(case["norb"]), (int(case["nelec"][0]), int(case["nelec"][1]))
    ci = np.asarray(case["ci"], float)
    tol = float(case["tol"])
    cis = fci.direct_spin1.FCISolver()
    cis.ci, cis.norb, cis.nelec = ci, norb, nelec
    import math

    beyond = math.comb(norb, nelec[0]) < math.comb(norb, nelec[1])
    ctx.case(case, nontrivial=ci.size >= 2 and np.count_nonzero(np.abs(ci) > tol) >= 2, classes=[f"fci-state:norb={norb}", "fci-state:ndets=" + ("None" if case["ndets"] is None else "given"), "fci-state:" + ("fewer-alpha-than-beta-strings" if beyond else "alpha-strings>=beta-strings")])
    if np.count_nonzero(np.abs(ci) > tol) == 0:
        # nothing above the tolerance: pyscf's large_ci then hands back its single largest entry - not a case the statement speaks about
        ctx.count("fci-state:no-coefficient-above-tolerance")
        return
    try:
        state = pyscf_interface.get_fci_state(cis, ndets=case["ndets"], tol=tol)
    except Exception as e:
        ctx.fail(f"fci-state:raised-{type(e).__name__}", case, f"{type(e).__name__}: {e}")
        return
    # independent decoding of pyscf's string addressing
    sa, sb = cistring.make_strings(range(norb), nelec[0]), cistring.make_strings(range(norb), nelec[1])
    occ = lambda string: tuple(1 if (int(string) >> p) & 1 else 0 for p in range(norb))
    want = {}
    for ia in range(ci.shape[0]):
        for ib in range(ci.shape[1]):
            if abs(ci[ia, ib]) > tol:
                want[(occ(sa[ia]), occ(sb[ib]))] = float(ci[ia, ib])
    k = len(want) if case["ndets"] is None else min(int(case["ndets"]), len(want))
    keep = dict(sorted(want.items(), key=lambda kv: -abs(kv[1]))[:k])
    got = {(tuple(d[0]), tuple(d[1])): float(c) for d, c in state.items()}
    if set(got) != set(keep):
        ctx.fail("fci-state:determinant-set" + (":fewer-alpha-than-beta-strings" if beyond else ""), case, f"{len(got)} determinants returned, {len(keep)} expected (|c| > {tol:g}, ndets={case['ndets']}); missing {sorted(set(keep) - set(got))[:3]}, extra {sorted(set(got) - set(keep))[:3]}")
        return
    bad = [d for d in keep if got[d] != keep[d]]
    if bad:
        ctx.fail("fci-state:coefficient", case, f"determinant {bad[0]}: coefficient {got[bad[0]]!r}, CI vector entry {keep[bad[0]]!r}")
        return
    first = next(iter(state))
    if k and abs(float(state[first])) < max(abs(v) for v in keep.values()) * (1 - 1e-12):
        ctx.fail("fci-state:not-sorted", case, "the first determinant of the list (the reference) is not the one with the largest coefficient")


# ---- (b) determinant files -----------------------------------------------------------------------------------
def write_dets(path, items, norb, ndets_header=None):
    with open(path, "wb") as f:
        f.write(struct.pack("i", len(items) if ndets_header is None else ndets_header))
        f.write(struct.pack("i", norb))
        for (a, b), c in items:
            f.write(struct.pack("d", float(c)))
            for j in range(norb):
                ch = b"2" if (a[j] and b[j]) else (b"a" if a[j] else (b"b" if b[j] else b"0"))
                f.write(struct.pack("c", ch))


@st.composite
def file_case(draw, tier="quick"):
    norb, nelec = draw(st.sampled_from(SHAPES + [(5, (2, 2)), (2, (1, 1))]))
    dets = gens.all_dets(norb, nelec)
    k = draw(st.integers(1, min(len(dets), 12)))
    order = draw(st.permutations(range(len(dets))))[:k]
    coeffs = [draw(st.floats(-2, 2, allow_nan=False).filter(lambda x: x != 0)) for _ in range(k)]
    mut = draw(st.sampled_from(["none", "none", "truncate", "count+", "ndets-arg"]))
    return {"norb": norb, "nelec": list(nelec), "dets": [[list(dets[i][0]), list(dets[i][1])] for i in order], "coeffs": coeffs, "mutation": mut, "cut": draw(st.integers(1, 40)), "ndets_arg": draw(st.integers(1, k))}


def file_body(ctx, case):
    norb = int(case["norb"])
    items = [((tuple(d[0]), tuple(d[1])), float(c)) for d, c in zip(case["dets"], case["coeffs"])]
    mut = case["mutation"]
    ctx.case(case, nontrivial=len(items) >= 2, classes=["file:" + mut, f"file:norb={norb}"])
    with tempfile.TemporaryDirectory(prefix="verif_dets_") as d:
        path = os.path.join(d, "dets.bin")
        if mut == "count+":
            write_dets(path, items, norb, ndets_header=len(items) + int(case["cut"]))
        else:
            write_dets(path, items, norb)
        if mut == "truncate":
            size = os.path.getsize(path)
            cut = min(int(case["cut"]), size - 9)
            with open(path, "rb") as f:
                data = f.read()
            with open(path, "wb") as f:
                f.write(data[: size - max(1, cut)])
        if mut in ("truncate", "count+"):
            try:
                out = pyscf_interface.read_dets(path)
            except Exception:
                ctx.count("file:damaged-file-raised")
                return
            ctx.fail(f"file:{mut}:not-rejected", case, f"damaged determinant file was parsed without error: {len(out[1])} determinants returned for a header/size mismatch")
            return
        nd = None if mut != "ndets-arg" else int(case["ndets_arg"])
        try:
            norbs, state, ndets_all = pyscf_interface.read_dets(path, nd)
        except Exception as e:
            ctx.fail(f"file:read-raised-{type(e).__name__}", case, f"{type(e).__name__}: {e}")
            return
        want = items if nd is None else items[:nd]
        if norbs != norb or ndets_all != len(items):
            ctx.fail("file:header", case, f"norbs {norbs} ndets_all {ndets_all}, written {norb} {len(items)}")
        if list(state.items()) != [(k, v) for k, v in want]:
            ctx.fail("file:roundtrip-differs", case, f"read back {list(state.items())[:3]}..., wrote {want[:3]}...")
            return
        mx = max(1, _need(want))
        try:
            a = pyscf_interface.get_excitations(fname=path, ndets=nd, max_excitation=mx)
            b = pyscf_interface.get_excitations(state=dict(want), max_excitation=mx)
        except Exception as e:
            ctx.fail(f"file:get_excitations-raised-{type(e).__name__}", case, f"{type(e).__name__}: {e}")
            return
        for i, (x, y) in enumerate(zip(a, b)):
            if isinstance(x, dict):
                if set(x) != set(y) or any(not np.array_equal(np.asarray(x[k]), np.asarray(y[k])) for k in x):
                    ctx.fail("file:get_excitations-differs", case, f"output #{i} differs between fname= and state=")
                    return
            elif not np.array_equal(np.asarray(x), np.asarray(y)):
                ctx.fail("file:get_excitations-differs", case, f"output #{i} differs between fname= and state=")
                return


# ---- (c) exact eigenvectors: zero-variance local energy ---------------------------------------------------------
def exact_state(norb, nelec, ham, which):
    F = fock(norb)
    H = F.hamiltonian(float(ham["h0"]), np.asarray(ham["h1"], float), np.asarray(ham["chol"], float))
    idx = F.sector(*nelec)
    Hs = H[idx][:, idx].toarray()
    Hs = (Hs + Hs.conj().T) / 2
    w, v = np.linalg.eigh(Hs.real)
    k = min(int(which), len(w) - 1)
    vec = v[:, k]
    items = []
    for amp_, bi in zip(vec, idx):
        a = tuple((int(bi) >> p) & 1 for p in range(norb))
        b = tuple((int(bi) >> (norb + p)) & 1 for p in range(norb))
        items.append(((a, b), float(amp_)))
    items.sort(key=lambda t: -abs(t[1]))
    return float(w[k]), items, w


@st.composite
def eig_case(draw, tier="quick"):
    norb, nelec = draw(st.sampled_from([(3, (2, 1)), (3, (1, 1))] if tier == "quick" else [(3, (2, 1)), (3, (1, 1)), (4, (2, 1)), (3, (2, 2))]))
    ham = draw(gens.hamiltonian(norb, spin_dependent=draw(st.booleans())))
    which = draw(st.sampled_from([0, 0, 0, 1, 2]))
    shuffle = draw(st.booleans())
    order = list(draw(st.permutations(range(len(gens.all_dets(norb, nelec)))))) if shuffle else None
    w = draw(gens.walker(norb, nelec))
    return {"norb": norb, "nelec": list(nelec), "ham": ham, "which": which, "order": order, "walker": w}


def eig_body(ctx, case):
    norb, nelec = int(case["norb"]), (int(case["nelec"][0]), int(case["nelec"][1]))
    E0, items, spec = exact_state(norb, nelec, case["ham"], case["which"])
    if case.get("order"):
        items = [items[i] for i in case["order"]]
    if abs(items[0][1]) < 0.05:
        # the first determinant is the reference of the Wick expansion: keep it a significant one
        j = int(np.argmax([abs(c) for _, c in items]))
        items[0], items[j] = items[j], items[0]
    nd = len(items)
    mx = sum(nelec)
    trial, wd = _build(norb, nelec, items, mx)
    params = {"dets": [[list(d[0]), list(d[1])] for d, _ in items], "coeffs": np.array([c for _, c in items]), "max_excitation": mx}
    frame = gens.reference_frame("multislater", norb, nelec, params)
    up = np.asarray(case["walker"]["up"], complex).reshape(norb, nelec[0]) * 0.5 + frame[0]
    dn = np.asarray(case["walker"]["dn"], complex).reshape(norb, nelec[1]) * 0.5 + frame[1]
    s = measure.Setup({"kind": "multislater", "norb": norb, "nelec": list(nelec), "params": params, "walker": {"up": up, "dn": dn}, "restricted": False, "ham": case["ham"]})
    ctx.case(case, nontrivial=bool(np.any(np.asarray(case["ham"]["chol"]))) and nd >= 2, classes=[f"eig:shape:{norb}:{nelec}", f"eig:state#{case['which']}", "eig:shuffled" if case.get("order") else "eig:sorted"])
    if s.cond > 1e3 or not (s.scale > 0 and abs(s.ovlp_exact) >= 1e-2 * s.scale):
        ctx.count("skipped:ill-conditioned-walker")
        return
    try:
        H_, hd = gens.build_ham(norb, case["ham"], trial, wd)
        en = complex(trial._calc_energy(jnp.asarray(up), jnp.asarray(dn), hd, wd))
    except Exception as e:
        ctx.fail(f"zero-variance:raised-{type(e).__name__}", case, f"{type(e).__name__}: {e}")
        return
    hn = abs(float(case["ham"]["h0"])) + float(np.sum(np.abs(case["ham"]["h1"]))) + float(np.sum(np.sum(np.abs(np.asarray(case["ham"]["chol"])), axis=(1, 2)) ** 2))
    nchol = np.asarray(case["ham"]["chol"]).shape[0]
    escale = (abs(E0) + hn) * (s.scale / abs(s.ovlp_exact)) * max(1.0, s.cond) ** 2 * (1 + 1e4 * nchol * 1e-4)
    ctx.check_close("zero-variance:local-energy", case, "local energy of a walker - exact eigenvalue", en, E0, 1e-5, escale)


# ---- (c') molecules through pyscf FCI ----------------------------------------------------------------------------
@st.composite
def mol_case(draw, tier="quick"):
    nat = draw(st.sampled_from([2, 4] if tier == "thorough" else [2, 4]))
    return {"nat": nat, "d": draw(st.floats(0.6, 2.2)), "jitter": [draw(st.floats(-0.1, 0.1)) for _ in range(3 * nat)], "walker_seed": draw(st.integers(0, 10**6))}


def mol_body(ctx, case):
    from pyscf import ao2mo, fci, gto, scf

    nat = int(case["nat"])
    xyz = np.array([[0.0, 0.0, float(case["d"]) * k] for k in range(nat)]) + np.asarray(case["jitter"]).reshape(nat, 3)
    mol = gto.M(atom=[("H", tuple(x)) for x in xyz], basis="sto-3g", verbose=0)
    mf = scf.RHF(mol).run()
    norb = mol.nao
    nelec = mol.nelec
    h1 = mf.mo_coeff.T @ mf.get_hcore() @ mf.mo_coeff
    eri = ao2mo.restore(1, ao2mo.kernel(mol, mf.mo_coeff), norb)
    cis = fci.direct_spin1.FCI(mol)
    e_fci, civec = cis.kernel(h1, eri, norb, nelec, ecore=mol.energy_nuc())
    cis.ci, cis.norb, cis.nelec = civec, norb, nelec
    state = pyscf_interface.get_fci_state(cis, tol=1e-12)
    ctx.case(case, nontrivial=len(state) >= 2, classes=[f"mol:H{nat}", f"mol:ndets={len(state)}"])
    # Cholesky vectors of the MO-basis ERI
    chol0 = pyscf_interface.modified_cholesky(eri.reshape(norb * norb, norb * norb), 1e-10)
    chol = chol0.reshape(-1, norb, norb)
    v0 = 0.5 * np.einsum("gik,gjk->ij", chol, chol)
    ham = {"h0": float(mol.energy_nuc()), "h1": np.stack([h1 - v0 + v0, h1]), "chol": chol}  # plain h1: the normal-ordered form of the property
    items = list(state.items())
    mx = sum(nelec)
    trial, wd = _build(norb, nelec, items, mx)
    rng = np.random.default_rng(int(case["walker_seed"]))
    up = np.eye(norb)[:, : nelec[0]] + 0.3 * (rng.normal(size=(norb, nelec[0])) + 1j * rng.normal(size=(norb, nelec[0])))
    dn = np.eye(norb)[:, : nelec[1]] + 0.3 * (rng.normal(size=(norb, nelec[1])) + 1j * rng.normal(size=(norb, nelec[1])))
    H_, hd = gens.build_ham(norb, ham, trial, wd)
    try:
        en = complex(trial._calc_energy(jnp.asarray(up), jnp.asarray(dn), hd, wd))
    except Exception as e:
        ctx.fail(f"zero-variance:molecule-raised-{type(e).__name__}", case, f"{type(e).__name__}: {e}")
        return
    ctx.check_close("zero-variance:molecule-local-energy", case, f"H{nat}: local energy - E_FCI", en, e_fci, 2e-5, max(1.0, abs(e_fci)) * 10)


# ---- (d) complete driver runs -------------------------------------------------------------------------------------
@st.composite
def driver_case(draw, tier="quick"):
    norb, nelec = draw(st.sampled_from([(3, (2, 1))] if tier == "quick" else [(3, (2, 1)), (3, (1, 1))]))
    ham = draw(gens.hamiltonian(norb, spin_dependent=False, nchol=2))
    return {"norb": norb, "nelec": list(nelec), "ham": ham, "seed": draw(st.integers(1, 10**6)), "n_blocks": draw(st.integers(3, 6)), "n_sr_blocks": draw(st.integers(1, 2))}


def driver_body(ctx, case):
    norb, nelec = int(case["norb"]), (int(case["nelec"][0]), int(case["nelec"][1]))
    ham = dict(case["ham"])
    ham["chol"] = np.asarray(ham["chol"], float) * 0.5
    E0, items, spec = exact_state(norb, nelec, ham, 0)
    if len(spec) > 1 and spec[1] - spec[0] < 1e-6:
        ctx.count("rejected:degenerate-ground-state")
        hypothesis.assume(False)
    ctx.case(case, nontrivial=bool(np.any(ham["chol"])), classes=[f"driver:n_blocks={case['n_blocks']}", f"driver:n_sr_blocks={case['n_sr_blocks']}"])
    mx = sum(nelec)
    trial, wd = _build(norb, nelec, items, mx)
    H = hmod.hamiltonian(norb)
    hd = {"h0": float(ham["h0"]), "h1": jnp.asarray(np.asarray(ham["h1"], float)), "chol": jnp.asarray(ham["chol"].reshape(-1, norb * norb)), "ene0": 0.0}
    nw = 4
    prop = propagation.propagator_unrestricted(dt=0.01, n_walkers=nw)
    smp = sampling.sampler(n_prop_steps=4, n_ene_blocks=1, n_sr_blocks=int(case["n_sr_blocks"]), n_blocks=int(case["n_blocks"]))
    opts = runs.default_options(seed=int(case["seed"]), n_walkers=nw, n_prop_steps=4, n_ene_blocks=1, n_sr_blocks=int(case["n_sr_blocks"]), n_blocks=int(case["n_blocks"]), walker_type="uhf")
    try:
        out = runs.run_driver(hd, H, prop, trial, wd, smp, None, opts)
    except Exception as e:
        ctx.fail(f"zero-variance:driver-raised-{type(e).__name__}", case, f"{type(e).__name__}: {e}")
        return
    raw = out["samples_raw"]
    if raw is None or raw.shape[0] != int(case["n_blocks"]):
        ctx.fail("zero-variance:driver-samples-missing", case, f"samples_raw.dat has shape {None if raw is None else raw.shape}")
        return
    dev = float(np.max(np.abs(raw[:, 1] - E0)))
    ctx.err("driver: max |block energy - E0| / max(1,|E0|)", dev / max(1.0, abs(E0)))
    if not dev <= 1e-4 * max(1.0, abs(E0)):
        ctx.fail("zero-variance:driver-block-energy", case, f"block energies {raw[:, 1].tolist()} vs exact eigenvalue {E0!r}")
    if out["e"] is not None and abs(out["e"] - E0) > 1e-4 * max(1.0, abs(E0)):
        ctx.fail("zero-variance:driver-mean-energy", case, f"reported AFQMC energy {out['e']!r} vs exact {E0!r}")


SUBCHECKS = [
    SubCheck("list_semantics", body=list_body, strategy=list_case, examples={"quick": 10, "thorough": 150}, shards={"quick": 8, "thorough": 12}, shrink=False),
    SubCheck("determinant_files", body=file_body, strategy=file_case, examples={"quick": 150, "thorough": 2000}, shards={"quick": 1, "thorough": 2}),
    SubCheck("fci_vector_to_determinant_list", body=fcistate_body, strategy=fcistate_case, examples={"quick": 200, "thorough": 3000}, shards={"quick": 1, "thorough": 2}),
    SubCheck("exact_trial_local_energy", body=eig_body, strategy=eig_case, examples={"quick": 12, "thorough": 150}, shards={"quick": 4, "thorough": 6}, shrink=False),
    SubCheck("fci_molecules", body=mol_body, strategy=mol_case, examples={"quick": 3, "thorough": 30}, shards={"quick": 2, "thorough": 4}, shrink=False),
    SubCheck("exact_trial_driver_runs", body=driver_body, strategy=driver_case, examples={"quick": 2, "thorough": 12}, shards={"quick": 2, "thorough": 6}, shrink=False),
]
