"""C16 — the pyscf interface writes the molecule's Hamiltonian and a consistent trial."""
import contextlib
import io
import os

import numpy as np

from vlib import env

env.setup()
import h5py
import hypothesis
import jax.numpy as jnp
from hypothesis import strategies as st

from vlib import runs
from vlib.harness import SubCheck

PROPERTY = "C16"
LEVEL = "exploration"
RULE = (
    "Hypothesis draws a molecule (H2..H6 chains / rings with generated bond lengths and jitter, LiH, OH radical; sto-3g / 6-31g), a mean-field or coupled-"
    "cluster method (RHF, ROHF, UHF, density-fitted RHF, CCSD, UCCSD, lattice Hubbard models through integrals=), the frozen-core count where the statement admits "
    "it, the orbital basis (canonical MOs, Loewdin AOs, randomly rotated MOs), a Cholesky threshold 1e-4..1e-9 and the trial / walker_type options of the set-up "
    "routine. Each case runs prep_afqmc and mpi_jax._prep_afqmc in a fresh scratch directory (files are the interface). Oracles: init_prop_data e_estimate = "
    "mf.e_tot; ground state of the (h0, h1, chol) read back from FCIDUMP_chol (pyscf direct_spin1 on sum_g L L, and the Fock-space model for norb <= 4) = "
    "pyscf FCI / CASCI energy; CISD / UCISD mixed energy at the reference = cc.e_tot; header electron count and ms = mol.nelec. "
    "Non-trivial = >= 2 electrons in the correlated space and >= 1 virtual orbital."
)
ASSUMPTIONS = [
    "energy tolerance 2 * chol_cut * nelec^2 + 2e-8 (Cholesky truncation bounds every ERI element by chol_cut); SCF converged to 1e-10",
    "molecules limited to <= 12 basis functions; the FCI clause to <= 8 correlated orbitals",
]


def build_mol(m):
    from pyscf import gto

    kind = m["kind"]
    if kind in ("Hchain", "Hring"):
        nat, d = int(m["nat"]), float(m["d"])
        jit = np.asarray(m["jitter"], float).reshape(-1, 3)[:nat]
        if kind == "Hring":
            R = d / (2 * np.sin(np.pi / nat))
            xyz = np.array([[R * np.cos(2 * np.pi * k / nat), R * np.sin(2 * np.pi * k / nat), 0.0] for k in range(nat)])
        else:
            xyz = np.array([[0.0, 0.0, d * k] for k in range(nat)])
        xyz = xyz + jit
        return gto.M(atom=[("H", tuple(x)) for x in xyz], basis=m["basis"], spin=int(m.get("spin", nat % 2)), verbose=0)
    if kind == "LiH":
        return gto.M(atom=[("Li", (0, 0, 0)), ("H", (0, 0, float(m["d"])))], basis="sto-3g", verbose=0)
    if kind == "OH":
        return gto.M(atom=[("O", (0, 0, 0)), ("H", (0, 0, float(m["d"])))], basis="sto-3g", spin=1, verbose=0)
    raise ValueError(kind)


@st.composite
def mol_strategy(draw, kinds):
    kind = draw(st.sampled_from(kinds))
    if kind in ("Hchain", "Hring"):
        nat = draw(st.integers(2, 6)) if kind == "Hchain" else draw(st.sampled_from([3, 4, 6]))
        basis = draw(st.sampled_from(["sto-3g", "sto-3g", "6-31g"]))
        if basis == "6-31g" and nat > 4:
            nat = 4
        return {"kind": kind, "nat": nat, "d": draw(st.floats(0.7, 1.8)), "jitter": [draw(st.floats(-0.08, 0.08)) for _ in range(18)], "basis": basis}
    if kind == "LiH":
        return {"kind": kind, "d": draw(st.floats(1.3, 2.2))}
    return {"kind": kind, "d": draw(st.floats(0.85, 1.2))}


METHODS = ["rhf", "rhf-uhf-trial", "rohf", "uhf", "df-rhf", "ccsd", "uccsd", "lattice", "integrals-mol"]


@st.composite
def case_strategy(draw, tier, shard=0, nshards=1):
    ms = [m for i, m in enumerate(METHODS) if i % nshards == shard] or METHODS
    method = draw(st.sampled_from(ms))
    c = {"method": method, "chol_cut": draw(st.sampled_from([1e-4, 1e-6, 1e-8, 1e-9])), "basis_choice": "mo", "norb_frozen": 0, "rot_seed": draw(st.integers(0, 10**6))}
    if method in ("rhf", "rhf-uhf-trial", "df-rhf", "ccsd"):
        c["mol"] = draw(mol_strategy(["Hchain", "Hring", "LiH", "Hchain"]))
        if c["mol"]["kind"] in ("Hchain", "Hring") and c["mol"]["nat"] % 2:
            c["mol"]["nat"] += 1
            if c["mol"]["basis"] == "6-31g" and c["mol"]["nat"] > 4:
                c["mol"]["basis"] = "sto-3g"
        if c["mol"]["kind"] == "LiH":
            c["norb_frozen"] = draw(st.sampled_from([0, 1]))
        if method in ("rhf", "rhf-uhf-trial"):
            # with a frozen core only rotations among the active orbitals keep the mean-field determinant representable
            c["basis_choice"] = draw(st.sampled_from(["mo", "mo", "lowdin", "rotated"])) if c["norb_frozen"] == 0 else draw(st.sampled_from(["mo", "rotated-active", "rotated-active"]))
        elif method == "ccsd" and c["norb_frozen"]:
            c["basis_choice"] = "mo"
        c["walker_type"] = "uhf" if method == "rhf-uhf-trial" else draw(st.sampled_from(["rhf", "uhf"]))
    elif method == "rohf":
        c["mol"] = draw(mol_strategy(["OH", "Hchain"]))
        if c["mol"]["kind"] == "Hchain":
            c["mol"]["nat"] = draw(st.sampled_from([3, 5]))
            c["mol"]["basis"] = "sto-3g"
        else:
            c["norb_frozen"] = draw(st.sampled_from([0, 1]))
            if c["norb_frozen"]:
                c["basis_choice"] = draw(st.sampled_from(["mo", "rotated-active"]))
        c["walker_type"] = "uhf"
    elif method in ("uhf", "uccsd"):
        c["mol"] = draw(mol_strategy(["OH", "Hchain", "Hchain"]))
        if c["mol"]["kind"] == "Hchain":
            c["mol"]["basis"] = "sto-3g"
            c["mol"]["d"] = draw(st.floats(1.2, 2.4))  # stretched: the UHF solution breaks spin symmetry
        c["walker_type"] = "uhf"
        c["dm_seed"] = draw(st.integers(0, 10**6))
    elif method == "integrals-mol":
        # a molecule handed over through the custom-integrals path (orthonormal MO basis): small ones have a full-rank pair matrix
        c["mol"] = draw(mol_strategy(["Hchain"]))
        c["mol"]["nat"] = draw(st.sampled_from([2, 3, 4]))
        c["mol"]["basis"] = "sto-3g"
        c["walker_type"] = "uhf"
        c["dm_seed"] = draw(st.integers(0, 10**6))
        c["basis_choice"] = draw(st.sampled_from(["mo", "rotated-integrals"]))
    else:
        c["lattice"] = {"n": draw(st.sampled_from([4, 6])), "U": draw(st.sampled_from([1.0, 4.0])), "ring": draw(st.booleans()), "nelec": None}
        c["lattice"]["nelec"] = draw(st.sampled_from([[2, 2], [3, 1], [2, 1]] if c["lattice"]["n"] == 4 else [[3, 3], [2, 2], [3, 2]]))
        c["walker_type"] = "uhf"
        c["dm_seed"] = draw(st.integers(0, 10**6))
    return c


def _scf(case):
    from pyscf import ao2mo, cc, gto, scf

    m = case["method"]
    if m == "lattice":
        L = case["lattice"]
        n, U = int(L["n"]), float(L["U"])
        h1 = np.zeros((n, n))
        for i in range(n - 1):
            h1[i, i + 1] = h1[i + 1, i] = -1.0
        if L["ring"] and n > 2:
            h1[0, n - 1] = h1[n - 1, 0] = -1.0
        h2 = np.zeros((n, n, n, n))
        for i in range(n):
            h2[i, i, i, i] = U
        integrals = {"h0": 0.0, "h1": h1, "h2": ao2mo.restore(8, h2, n)}
        mol = gto.Mole()
        mol.nelectron = int(sum(L["nelec"]))
        mol.incore_anyway = True
        mol.spin = int(L["nelec"][0] - L["nelec"][1])
        mol.verbose = 0
        mol.build()
        mf = scf.UHF(mol)
        mf.get_hcore = lambda *a: h1
        mf.get_ovlp = lambda *a: np.eye(n)
        mf._eri = ao2mo.restore(8, h2, n)
        mf.conv_tol = 1e-11
        rng = np.random.default_rng(int(case["dm_seed"]))
        dm = mf.init_guess_by_1e()
        dm = dm + 0.3 * rng.normal(size=dm.shape)
        dm = (dm + dm.transpose(0, 2, 1)) / 2
        mf.kernel(dm)
        return mol, mf, None, integrals
    if m == "integrals-mol":
        rmol = build_mol(case["mol"])
        rmf = (scf.RHF(rmol) if rmol.spin == 0 else scf.ROHF(rmol))
        rmf.conv_tol = 1e-11
        rmf.verbose = 0
        rmf.kernel()
        Cm = rmf.mo_coeff
        n = rmol.nao
        h1 = Cm.T @ rmf.get_hcore() @ Cm
        h2 = ao2mo.restore(1, ao2mo.kernel(rmol, Cm), n)
        integrals = {"h0": float(rmol.energy_nuc()), "h1": h1, "h2": ao2mo.restore(8, h2, n)}
        mol = gto.Mole()
        mol.nelectron = rmol.nelectron
        mol.incore_anyway = True
        mol.spin = rmol.spin
        mol.verbose = 0
        mol.build()
        mf = scf.UHF(mol)
        mf.get_hcore = lambda *a: h1
        mf.get_ovlp = lambda *a: np.eye(n)
        mf._eri = ao2mo.restore(8, h2, n)
        mf.conv_tol = 1e-11
        mf.kernel()
        mf.e_tot = mf.e_tot + float(rmol.energy_nuc())  # the dummy molecule has no nuclei; h0 carries the repulsion
        return mol, mf, None, integrals
    mol = build_mol(case["mol"])
    if m in ("rhf", "rhf-uhf-trial", "ccsd"):
        mf = scf.RHF(mol)
    elif m == "df-rhf":
        mf = scf.RHF(mol).density_fit()
    elif m == "rohf":
        mf = scf.ROHF(mol)
    else:
        mf = scf.UHF(mol)
    mf.conv_tol = 1e-11
    if m in ("uhf", "uccsd"):
        rng = np.random.default_rng(int(case["dm_seed"]))
        dm = mf.get_init_guess()
        dm[0][0, 0] += 0.5
        dm[1][-1, -1] += 0.5
        mf.kernel(dm)
    else:
        mf.kernel()
    obj = None
    if m == "ccsd":
        obj = cc.CCSD(mf)
        obj.frozen = int(case["norb_frozen"]) or None
        obj.conv_tol = 1e-11
        obj.conv_tol_normt = 1e-8
        obj.max_cycle = 300
        obj.verbose = 0
        obj.kernel()
    elif m == "uccsd":
        obj = cc.UCCSD(mf)
        obj.conv_tol = 1e-11
        obj.conv_tol_normt = 1e-8
        obj.max_cycle = 300
        obj.verbose = 0
        obj.kernel()
    return mol, mf, obj, None


def _lowest(fci, h1, eri, norb, nelec, ecore):
    """Lowest eigenvalue in the (n_up, n_dn) sector: several roots, so that the answer does not depend on which spin state the Davidson
    guess happens to favour in a given orbital basis (singlet/triplet near-degeneracies of stretched rings)."""
    dim = int(__import__("math").comb(norb, nelec[0]) * __import__("math").comb(norb, nelec[1]))
    nroots = min(4, dim)
    e, _ = fci.direct_spin1.kernel(h1, eri, norb, nelec, ecore=ecore, tol=1e-12, max_cycle=400, nroots=nroots)
    return float(np.min(e))


def body(ctx, case):
    from pyscf import fci, mcscf

    import ad_afqmc.mpi_jax as mpi_jax
    from ad_afqmc import pyscf_interface
    from vlib.fockref import fock

    m = case["method"]
    buf = io.StringIO()
    try:
        with contextlib.redirect_stdout(buf):
            mol, mf, ccobj, integrals = _scf(case)
    except Exception as e:
        ctx.count("rejected:pyscf-setup-failed")
        hypothesis.assume(False)
    if not mf.converged or (ccobj is not None and not ccobj.converged):
        ctx.count("rejected:pyscf-not-converged")
        hypothesis.assume(False)
    nfrozen = int(case["norb_frozen"])
    chol_cut = float(case["chol_cut"])
    nelec = mol.nelec
    nel_corr = sum(nelec) - 2 * nfrozen
    basis_coeff = None
    if case["basis_choice"] == "lowdin":
        import scipy.linalg

        basis_coeff = scipy.linalg.fractional_matrix_power(mf.get_ovlp(), -0.5).real
    elif case["basis_choice"] == "rotated":
        rng = np.random.default_rng(int(case["rot_seed"]))
        q, _ = np.linalg.qr(rng.normal(size=(mol.nao, mol.nao)))
        basis_coeff = mf.mo_coeff @ q
    elif case["basis_choice"] == "rotated-active":
        rng = np.random.default_rng(int(case["rot_seed"]))
        q, _ = np.linalg.qr(rng.normal(size=(mol.nao - nfrozen, mol.nao - nfrozen)))
        R = np.eye(mol.nao)
        R[nfrozen:, nfrozen:] = q
        basis_coeff = mf.mo_coeff @ R
    elif m == "lattice":
        basis_coeff = np.eye(int(case["lattice"]["n"]))
    elif m == "integrals-mol":
        basis_coeff = np.eye(integrals["h1"].shape[0])
        if case["basis_choice"] == "rotated-integrals":
            rng = np.random.default_rng(int(case["rot_seed"]))
            basis_coeff, _ = np.linalg.qr(rng.normal(size=basis_coeff.shape))
    trial_opt = {"rhf": "rhf", "rhf-uhf-trial": "uhf", "df-rhf": "rhf", "rohf": "uhf", "uhf": "uhf", "ccsd": "cisd", "uccsd": "ucisd", "lattice": "uhf", "integrals-mol": "uhf"}[m]
    if m in ("rhf", "df-rhf") and case["walker_type"] == "uhf":
        trial_opt = "uhf"
    if m == "ccsd":
        case_wt = "rhf"
    else:
        case_wt = case["walker_type"]
    norb_corr = (integrals["h1"].shape[0] if integrals is not None else mol.nao) - nfrozen
    ctx.case(case, nontrivial=nel_corr >= 2 and norb_corr > max(nelec) - nfrozen, classes=["method:" + m, "basis:" + case["basis_choice"], f"frozen={nfrozen}", f"chol_cut={chol_cut:g}", f"trial={trial_opt}/walkers={case_wt}"])
    with runs.scratch_dir("verif_c16_"):
        try:
            with contextlib.redirect_stdout(buf):
                kw = {"chol_cut": chol_cut}
                if basis_coeff is not None:
                    kw["basis_coeff"] = basis_coeff
                if integrals is not None:
                    kw["integrals"] = integrals
                if nfrozen and ccobj is None:
                    kw["norb_frozen"] = nfrozen
                if ccobj is not None:
                    # preparing twice from the same coupled-cluster object (e.g. again with another threshold) must not change the
                    # object's amplitudes nor what is written the second time: the read-back below is that of the second call
                    amp0 = [np.array(a, copy=True) for a in (list(ccobj.t1) + list(ccobj.t2) if isinstance(ccobj.t1, (tuple, list)) else [ccobj.t1, ccobj.t2])]
                    pyscf_interface.prep_afqmc(ccobj, **kw)
                pyscf_interface.prep_afqmc(ccobj if ccobj is not None else mf, **kw)
                if ccobj is not None:
                    amp1 = list(ccobj.t1) + list(ccobj.t2) if isinstance(ccobj.t1, (tuple, list)) else [ccobj.t1, ccobj.t2]
                    amp_changed = max(float(np.max(np.abs(np.asarray(a1) - a0))) if np.asarray(a1).size else 0.0 for a0, a1 in zip(amp0, amp1))
                opts = {"trial": trial_opt, "walker_type": case_wt, "n_walkers": 2, "seed": 3}
                ham_data, ham, prop, trial, wave_data, sampler, observable, options, MPI = mpi_jax._prep_afqmc(dict(opts))
                ham_data = ham.build_measurement_intermediates(ham_data, trial, wave_data)
                ham_data = ham.build_propagation_intermediates(ham_data, prop, trial, wave_data)
                pd = prop.init_prop_data(trial, wave_data, ham_data)
            with h5py.File("FCIDUMP_chol", "r") as fh5:
                header = [int(x) for x in fh5["header"]]
                h0 = float(np.array(fh5.get("energy_core")))
                nmo = header[1]
                h1 = np.array(fh5.get("hcore")).reshape(nmo, nmo)
                chol = np.array(fh5.get("chol")).reshape(-1, nmo, nmo)
        except Exception as e:
            ctx.fail(f"interface:raised-{type(e).__name__}:{m}:frozen={nfrozen}:basis={case['basis_choice']}", case, f"{type(e).__name__}: {str(e)[:300]}")
            return
    if ccobj is not None:
        # informational only: the statement is about what is written, which the energy clause below decides for the second call
        ctx.count("cc-object-amplitudes-" + ("changed-by-prep" if amp_changed > 0 else "untouched-by-prep"))
    e_est = float(pd["e_estimate"])
    tol = 2 * chol_cut * max(4, sum(nelec)) ** 2 + (2e-8 if ccobj is None else 2e-7)
    ref = ccobj.e_tot if ccobj is not None else mf.e_tot
    label = "cc-energy" if ccobj is not None else "mean-field-energy"
    err = abs(e_est - ref)
    ctx.err(f"|e_estimate - reference| / tol [{m}]", err / tol)
    if not err <= tol:
        ctx.fail(f"{label}:{m}:frozen={nfrozen}:basis={case['basis_choice']}:trial={trial_opt}/{case_wt}", case, f"e_estimate {e_est!r} vs pyscf {ref!r} (diff {err:.3e}, tol {tol:.1e})")
    # header
    want_ne, want_ms = nel_corr, nelec[0] - nelec[1]
    if header[0] != want_ne or header[2] != want_ms or header[1] != norb_corr or header[3] != chol.shape[0]:
        ctx.fail(f"header:{m}:frozen={nfrozen}", case, f"header {header}, expected nelec {want_ne}, nmo {norb_corr}, ms {want_ms}")
    # the written integrals themselves, element by element, against pyscf's in the same orbital basis. Both Cholesky routines stop when the
    # largest diagonal residual is below the threshold; the residual is positive semi-definite, so every element of it is bounded by the
    # threshold, and transforming from the basis the decomposition ran in to the written one multiplies that by at most (max_p |C_p|_1)^4.
    if m != "df-rhf" and norb_corr <= 10:
        from pyscf import ao2mo as _ao2mo

        if basis_coeff is not None:
            Cfull = np.asarray(basis_coeff)
        else:
            Cfull = mf.mo_coeff if np.ndim(mf.mo_coeff) == 2 else mf.mo_coeff[0]
        Cact = np.asarray(Cfull)[:, nfrozen:]
        cmax = max(1.0, float(np.max(np.sum(np.abs(Cact), axis=0))))
        if integrals is not None:
            eri_src = _ao2mo.restore(1, integrals["h2"], Cfull.shape[0])
            eri_ref = np.einsum("pqrs,pi,qj,rk,sl->ijkl", eri_src, Cact, Cact, Cact, Cact, optimize=True)
            h1_ref, h0_ref = Cact.T @ integrals["h1"] @ Cact, float(integrals["h0"])
        else:
            eri_ref = _ao2mo.restore(1, _ao2mo.kernel(mol, Cact), Cact.shape[1])
            if nfrozen:
                mc0 = mcscf.CASCI(mf, mol.nao - nfrozen, mol.nelectron - 2 * nfrozen)
                mc0.verbose = 0
                h1_ref, h0_ref = mc0.get_h1eff(mo_coeff=Cfull)
                h0_ref = float(h0_ref)
            else:
                h1_ref, h0_ref = Cact.T @ mf.get_hcore() @ Cact, float(mol.energy_nuc())
        eri_written = np.einsum("gij,gkl->ijkl", chol, chol)
        tol_el = chol_cut * cmax**4 + 1e-8
        d_eri = float(np.max(np.abs(eri_written - eri_ref)))
        d_h1 = float(np.max(np.abs(h1 - h1_ref)))
        d_h0 = abs(h0 - h0_ref)
        ctx.count("integrals-compared-elementwise")
        ctx.err(f"max |(pq|rs) written - pyscf| / tol [{m}]", d_eri / tol_el)
        if not d_eri <= tol_el:
            ctx.fail(f"integrals:two-body-elements:{m}:frozen={nfrozen}:basis={case['basis_choice']}", case, f"max |sum_g L_pq L_rs - (pq|rs)| = {d_eri:.3e} > {tol_el:.1e} (threshold {chol_cut:g})")
        asym = float(np.max(np.abs(chol - chol.transpose(0, 2, 1))))
        if not asym <= 1e-10 * max(1.0, float(np.max(np.abs(chol)))):
            ctx.fail(f"integrals:cholesky-vectors-not-symmetric:{m}", case, f"max |L_pq - L_qp| = {asym:.3e}: the written two-body operator is not Hermitian")
        tol_h1 = (4 * nfrozen * tol_el if nfrozen else 0.0) + 1e-9 * max(1.0, float(np.max(np.abs(h1_ref))))
        if not d_h1 <= tol_h1:
            ctx.fail(f"integrals:one-body-elements:{m}:frozen={nfrozen}:basis={case['basis_choice']}", case, f"max |h1 written - pyscf| = {d_h1:.3e} > {tol_h1:.1e}")
        tol_h0 = (4 * nfrozen**2 * tol_el if nfrozen else 0.0) + 1e-9 * max(1.0, abs(h0_ref))
        if not d_h0 <= tol_h0:
            ctx.fail(f"integrals:constant:{m}:frozen={nfrozen}", case, f"|h0 written - pyscf| = {d_h0:.3e} > {tol_h0:.1e}")
    # exact ground state of the written Hamiltonian
    if norb_corr <= 8 and m != "df-rhf":
        na, nb = (want_ne + want_ms) // 2, (want_ne - want_ms) // 2
        eri = np.einsum("gij,gkl->ijkl", chol, chol)
        e_written = _lowest(fci, h1, eri, nmo, (na, nb), h0)
        if integrals is not None:
            e_ref = _lowest(fci, integrals["h1"], __import__("pyscf").ao2mo.restore(1, integrals["h2"], nmo), nmo, (na, nb), float(integrals["h0"]))
        elif nfrozen:
            mc = mcscf.CASCI(mf, mol.nao - nfrozen, mol.nelectron - 2 * nfrozen)
            mc.verbose = 0
            mc.fcisolver.conv_tol = 1e-12
            mc.fcisolver.nroots = 4
            e_ref = float(np.min(mc.kernel(mf.mo_coeff if not isinstance(mf.mo_coeff, (list, tuple)) and np.ndim(mf.mo_coeff) == 2 else mf.mo_coeff[0])[0]))
        else:
            from pyscf import ao2mo

            C = mf.mo_coeff if np.ndim(mf.mo_coeff) == 2 else mf.mo_coeff[0]
            h1m = C.T @ mf.get_hcore() @ C
            erim = ao2mo.restore(1, ao2mo.kernel(mol, C), mol.nao)
            e_ref = _lowest(fci, h1m, erim, mol.nao, (na, nb), mol.energy_nuc())
        ctx.count("fci-clause-checked")
        errf = abs(e_written - e_ref)
        ctx.err(f"|E_FCI(written H) - E_FCI(pyscf)| / tol [{m}]", errf / tol)
        if not errf <= tol:
            ctx.fail(f"fci-energy:{m}:frozen={nfrozen}:basis={case['basis_choice']}", case, f"FCI of the written Hamiltonian {e_written!r} vs pyscf {e_ref!r} (diff {errf:.3e})")
        if nmo <= 4:
            F = fock(nmo)
            Hm = F.hamiltonian(h0, np.stack([h1, h1]), chol)
            idx = F.sector(na, nb)
            e_fock = float(np.linalg.eigvalsh(Hm[idx][:, idx].toarray().real)[0])
            ctx.count("fock-model-cross-check")
            if abs(e_fock - e_written) > 1e-8 * max(1.0, abs(e_written)):
                ctx.fail("fci-energy:fock-model-disagrees-with-direct_spin1", case, f"Fock model {e_fock!r} vs direct_spin1 {e_written!r} on the written integrals")


SUBCHECKS = [
    SubCheck("prep_and_readback", body=body, strategy=case_strategy, examples={"quick": 5, "thorough": 40}, shards={"quick": 9, "thorough": 18}, shrink=False),
]
