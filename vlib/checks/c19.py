"""C19 — reported means and error bars follow their statistical definitions."""
import contextlib
import io
import math

import numpy as np

from vlib import env

env.setup()
from hypothesis import strategies as st
from hypothesis.extra import numpy as hnp

from ad_afqmc import stat_utils
from vlib.harness import SubCheck

PROPERTY = "C19"
LEVEL = "exploration"
RULE = (
    "Hypothesis draws (a) short series (4..60 samples) element by element: weights scale*(0,1], samples with ties/constants, an equilibration "
    "cut neql; (b) long series (up to 10^4) and ensembles of 150-300 synthetic i.i.d. / AR(1) series from a Hypothesis-drawn integer seed "
    "(the ensemble is the object under test; its seed is the generated input); (c) data matrices, column and m for the outlier filter; "
    "(d) real num/denom vectors for the jackknife. Oracles: the definitions re-implemented independently in numpy, the printed per-block-size "
    "table (captured stdout), metamorphic relations (w->c*w, e->e+c), analytic standard errors of the synthetic ensembles. Non-trivial = "
    "series with >= 2 distinct samples and >= 2 distinct weights (definition/metamorphic cases), any ensemble, outlier cases where at least "
    "one row is rejected and one kept, jackknife cases with n >= 3; distinct by SHA-1 of the inputs."
)
ASSUMPTIONS = [
    "statistical clauses compare ensemble means with analytic values inside [0.85, 1.15]; measured spread on the unchanged tree over seeds is 0.95-1.06 (i.i.d.) and 0.98-1.02 (AR(1))",
    "i.i.d. weight classes: U(0,1], U(0.5,1.5), 1e-3+Exp(1), each times 10^k; heavy-tailed (log-normal) weights are not in the statistical clause (block-size-1 estimate is by definition sigma/sqrt(n-1) irrespective of weights)",
    "outlier rows within 1e-9*(1+m) of the m*MAD boundary are exempt (the code adds 1e-10 to the MAD)",
]


def table(weights, energies, neql=0):
    buf = io.StringIO()
    with contextlib.redirect_stdout(buf):
        mean, err = stat_utils.blocking_analysis(np.asarray(weights, float), np.asarray(energies, float), neql=neql, printQ=True)
    rows = []
    for line in buf.getvalue().splitlines():
        p = line.split()
        if len(p) == 4 and not line.startswith("#"):
            try:
                rows.append((int(p[0]), int(p[1]), float(p[2]), float(p[3])))
            except ValueError:
                pass
    return mean, err, rows, buf.getvalue()


# ---- (a) definitions + metamorphic -----------------------------------------------------------
@st.composite
def series_case(draw, tier="quick"):
    n = draw(st.integers(4, 60))
    scale = 10.0 ** draw(st.integers(-6, 6))
    wkind = draw(st.sampled_from(["any", "any", "equal", "two-valued"]))
    if wkind == "equal":
        w = [1.0] * n
    elif wkind == "two-valued":
        w = [draw(st.sampled_from([0.5, 1.0])) for _ in range(n)]
    else:
        w = draw(st.lists(st.floats(1e-3, 1.0), min_size=n, max_size=n))
    ekind = draw(st.sampled_from(["float", "float", "ties", "constant"]))
    if ekind == "constant":
        e = [draw(st.floats(-100, 100))] * n
    elif ekind == "ties":
        e = [float(draw(st.integers(-3, 3))) for _ in range(n)]
    else:
        e = draw(st.lists(st.floats(-10, 10), min_size=n, max_size=n))
    off = draw(st.sampled_from([0.0, 0.0, -75.3, 1000.0]))
    e = [x + off for x in e]
    neql = draw(st.integers(0, max(0, n - 4)))
    c_w = draw(st.sampled_from([2.0, 0.5, 1e-5, 1e7, 3.0]))
    c_e = draw(st.sampled_from([1.0, -2.5, 100.0]))
    return {"w": [x * scale for x in w], "e": e, "neql": neql, "c_w": c_w, "c_e": c_e}


def _bs1_formula(w, e):
    """Unbiased (reliability-)weighted variance over (number of blocks - 1), written from the definition."""
    V1 = w.sum()
    V2 = (w**2).sum()
    mu = (w * e).sum() / V1
    s2 = (w * (e - mu) ** 2).sum() / (V1 - V2 / V1)
    return mu, math.sqrt(s2 / (len(w) - 1))


def _block_formula(w, e, b):
    nb = len(w) // b
    bw = np.array([w[j * b : (j + 1) * b].sum() for j in range(nb)])
    be = np.array([(w[j * b : (j + 1) * b] * e[j * b : (j + 1) * b]).sum() for j in range(nb)]) / bw
    return _bs1_formula(bw, be)


def series_body(ctx, case):
    w = np.asarray(case["w"], float)
    e = np.asarray(case["e"], float)
    neql = int(case["neql"])
    n = len(w) - neql
    nontriv = len(set(e[neql:].tolist())) >= 2 and len(set(w[neql:].tolist())) >= 2
    ctx.case(case, nontrivial=nontriv, classes=["neql>0" if neql else "neql=0", "constant-data" if len(set(e[neql:].tolist())) == 1 else "varying-data"])
    try:
        mean, err, rows, txt = table(w, e, neql)
    except Exception as ex:
        ctx.fail(f"blocking:raised-{type(ex).__name__}", case, f"{type(ex).__name__}: {ex}")
        return
    ws, es = w[neql:], e[neql:]
    escale = max(1.0, float(np.max(np.abs(es))))
    mu = float((ws * es).sum() / ws.sum())
    ctx.check_close("blocking:mean", case, "mean", mean, mu, 1e-12, escale)
    if not (err is None or (isinstance(err, float) and err == err)):
        ctx.fail("blocking:error-type", case, f"returned error {err!r}")
        return
    # per-block-size rows follow the stated formula (block size 1 in particular)
    sizes = [b for b in [1, 2, 5, 10, 20, 50, 100, 200, 300, 400, 500, 1000, 10000] if b < n / 2.0]
    if [r[0] for r in rows] != sizes:
        ctx.fail("blocking:table-rows", case, f"block sizes printed {[r[0] for r in rows]} expected {sizes}")
        return
    spread = float(np.max(es) - np.min(es))
    for b, nb, m_b, e_b in rows:
        if nb != n // b:
            ctx.fail("blocking:table-nblocks", case, f"block size {b}: {nb} blocks printed, expected {n // b}")
        if spread > 0:
            m_ref, e_ref = _block_formula(ws, es, b)
            # printed with 7 significant digits
            if abs(e_b - e_ref) > 2e-6 * abs(e_ref) + 1e-13 * escale:
                ctx.fail("blocking:table-error" + (":block-size-1" if b == 1 else ""), case, f"block size {b}: printed error {e_b!r} vs weighted-variance formula {e_ref!r}")
            if abs(m_b - m_ref) > 2e-8 * escale:
                ctx.fail("blocking:table-mean", case, f"block size {b}: printed mean {m_b!r} vs {m_ref!r}")
    # returned error is None or the max of a plateau pair of the per-block-size estimates
    if err is not None and spread > 0:
        full = [_block_formula(ws, es, b)[1] for b in sizes]
        cands = [max(full[i], full[i - 1]) for i in range(1, len(full))] + [full[0]]
        if not any(abs(err - c) <= 1e-9 * max(abs(c), 1e-300) for c in cands):
            ctx.fail("blocking:returned-error-not-a-block-estimate", case, f"returned {err!r}, per-block-size estimates {full}")
        # and it is the first plateau
        prev, want = 0.0, None
        for x in full:
            if x < 1.05 * prev and want is None:
                want = max(x, prev)
            prev = x
        if want is None or abs(want - err) > 1e-9 * abs(want):
            ctx.fail("blocking:returned-error-not-first-plateau", case, f"returned {err!r}, first plateau of {full} is {want!r}")
    if spread == 0:
        c = abs(float(es[0]))
        if err is not None and not (abs(err) <= 1e-12 * max(c, 1.0)):
            ctx.fail("blocking:constant-data-nonzero-error", case, f"constant data {es[0]!r} gave error {err!r}")
        for b, nb, m_b, e_b in rows:
            if not (abs(e_b) <= 1e-12 * max(c, 1.0)):
                ctx.fail("blocking:constant-data-nonzero-error", case, f"constant data: block size {b} error {e_b!r}")
    # metamorphic: weights rescaled, samples shifted
    cw, ce = float(case["c_w"]), float(case["c_e"])
    m2, e2 = stat_utils.blocking_analysis(w * cw, e, neql=neql)
    m3, e3 = stat_utils.blocking_analysis(w, e + ce, neql=neql)
    ctx.check_close("blocking:weight-rescaling-changes-mean", case, "mean(w*c)", m2, mean, 1e-11, escale)
    ctx.check_close("blocking:shift-not-followed", case, "mean(e+c)", m3, mean + ce, 1e-11, escale + abs(ce))
    for label, other in (("weight-rescaling", e2), ("constant-shift", e3)):
        if spread == 0:
            for o in (other,):
                if o is not None and not (abs(o) <= 1e-12 * max(abs(float(es[0])) + abs(ce), 1.0)):
                    ctx.fail("blocking:constant-data-nonzero-error", case, f"constant data under {label}: error {o!r}")
            continue
        if (err is None) != (other is None):
            # plateau detection compares floats with '<': only a genuine flip if estimates are not within rounding of the 1.05 threshold
            ctx.inconclusive("plateau-flip-under-" + label)
        elif err is not None and abs(other - err) > 1e-7 * abs(err) + 1e-12 * (escale + abs(ce)):
            ctx.fail(f"blocking:error-changes-under-{label}", case, f"error {err!r} -> {other!r}")


# ---- (b) ensembles with known true error ------------------------------------------------------
@st.composite
def ensemble_case(draw, tier="quick"):
    kind = draw(st.sampled_from(["iid", "iid", "ar1"]))
    seed = draw(st.integers(0, 2**31 - 1))
    if kind == "iid":
        n = draw(st.sampled_from([100, 200, 500, 1000] + ([2000, 5000] if tier == "thorough" else [])))
        return {"kind": kind, "seed": seed, "n": n, "members": 200 if tier == "quick" else 300, "wkind": draw(st.sampled_from(["u01", "u0515", "exp", "equal"])),
                "wscale": 10.0 ** draw(st.integers(-6, 6)), "sigma": draw(st.sampled_from([1.0, 1e-3, 50.0])), "mu": draw(st.sampled_from([0.0, -100.0]))}
    rho = draw(st.sampled_from([0.5, 0.9]))
    n = {0.5: 3000, 0.9: 10000}[rho] if tier == "thorough" else {0.5: 2000, 0.9: 6000}[rho]
    return {"kind": kind, "seed": seed, "n": n, "members": 120 if tier == "quick" else 200, "rho": rho, "sigma": draw(st.sampled_from([1.0, 0.01]))}


def ensemble_body(ctx, case):
    rng = np.random.default_rng(int(case["seed"]))
    n, M = int(case["n"]), int(case["members"])
    ctx.case(case, nontrivial=True, classes=["ensemble:" + case["kind"] + (":" + str(case.get("wkind", case.get("rho"))))])
    ratios, nnone = [], 0
    if case["kind"] == "iid":
        for _ in range(M):
            wk = case["wkind"]
            w = {"u01": lambda: 1 - rng.random(n), "u0515": lambda: rng.uniform(0.5, 1.5, n), "exp": lambda: rng.exponential(size=n) + 1e-3, "equal": lambda: np.ones(n)}[wk]() * case["wscale"]
            e = case["mu"] + case["sigma"] * rng.normal(size=n)
            mu, err = stat_utils.blocking_analysis(w, e)
            true = case["sigma"] * math.sqrt((w**2).sum()) / w.sum()
            if err is None:
                nnone += 1
            else:
                ratios.append(err / true)
        label = "iid"
    else:
        from scipy.signal import lfilter

        rho, sig = float(case["rho"]), float(case["sigma"])
        theo = sig * math.sqrt(1 / (1 - rho**2)) * math.sqrt((1 + rho) / ((1 - rho) * n))
        tabs = []
        for _ in range(M):
            eps = rng.normal(size=n) * sig
            eps[0] /= math.sqrt(1 - rho**2)
            x = lfilter([1.0], [1.0, -rho], eps)
            mean, err, rows, _ = table(np.ones(n), x)
            if err is None:
                nnone += 1
            else:
                ratios.append(err / theo)
            tabs.append([r[3] for r in rows])
        label = "ar1"
        tabs = np.mean(np.array(tabs), axis=0) / theo
        # estimates grow towards the plateau: ensemble-mean table non-decreasing until it first reaches 0.9 of the truth,
        # and block size 1 clearly underestimates
        expect_bs1 = math.sqrt((1 - rho) / (1 + rho))
        if abs(tabs[0] - expect_bs1) > 0.1 * expect_bs1:
            ctx.fail("blocking:ar1-block-size-1", case, f"block-size-1 estimate / true error = {tabs[0]:.3f}, expected {expect_bs1:.3f}")
        k = int(np.argmax(tabs >= 0.9)) if np.any(tabs >= 0.9) else len(tabs) - 1
        if np.any(np.diff(tabs[: k + 1]) < -0.02):
            ctx.fail("blocking:ar1-not-growing", case, f"ensemble-mean per-block-size estimates / true = {np.round(tabs, 3).tolist()}")
        if not np.any(tabs >= 0.9):
            ctx.fail("blocking:ar1-no-plateau", case, f"per-block-size estimates never reach the true error: {np.round(tabs, 3).tolist()}")
    if nnone > 0.5 * M:
        ctx.inconclusive("no-plateau-found-in-most-members")
        return
    ctx.count("members-without-plateau", nnone)
    r = float(np.mean(ratios))
    ctx.err(f"|ensemble mean ratio - 1| ({label})", abs(r - 1))
    if not (0.85 <= r <= 1.15):
        ctx.fail(f"blocking:{label}-error-vs-true", case, f"ensemble-mean returned error / analytic standard error = {r:.3f} ({len(ratios)} members, {nnone} without plateau)")


# ---- (c) outlier rejection --------------------------------------------------------------------
@st.composite
def outlier_case(draw, tier="quick"):
    rows = draw(st.integers(1, 40))
    cols = draw(st.integers(1, 4))
    kind = draw(st.sampled_from(["float", "ties", "with-outliers"]))
    if kind == "ties":
        data = draw(hnp.arrays(np.float64, (rows, cols), elements=st.integers(-3, 3).map(float)))
    else:
        data = draw(hnp.arrays(np.float64, (rows, cols), elements=st.floats(-10, 10)))
        if kind == "with-outliers":
            k = draw(st.integers(0, rows - 1))
            data = data.copy()
            data[k, :] += draw(st.sampled_from([1e3, -1e6, 50.0]))
    return {"data": data, "obs": draw(st.integers(0, cols - 1)), "m": draw(st.sampled_from([10.0, 1.0, 2.5, 0.5, 1.5, 0.8, 100.0, 3.0]))}


def outlier_body(ctx, case):
    data = np.asarray(case["data"], float)
    obs, m = int(case["obs"]), float(case["m"])
    try:
        kept, mask = stat_utils.reject_outliers(data, obs, m)
    except Exception as ex:
        ctx.case(case, nontrivial=False)
        ctx.fail(f"outliers:raised-{type(ex).__name__}", case, f"{type(ex).__name__}: {ex}")
        return
    mask = np.asarray(mask)
    x = data[:, obs]
    med = np.sort(x)[len(x) // 2] if len(x) % 2 else 0.5 * (np.sort(x)[len(x) // 2 - 1] + np.sort(x)[len(x) // 2])
    d = np.abs(x - med)
    ds = np.sort(d)
    mad = ds[len(d) // 2] if len(d) % 2 else 0.5 * (ds[len(d) // 2 - 1] + ds[len(d) // 2])
    want = d < m * mad
    border = np.abs(d - m * mad) <= 1e-9 * (1 + m) * max(1.0, float(np.max(np.abs(x))))
    ctx.case(case, nontrivial=bool(want.any() and (~want).any()), classes=["outliers:some-rejected" if (~want).any() else "outliers:none-rejected"])
    if mask.shape != (data.shape[0],) or mask.dtype != bool:
        ctx.fail("outliers:mask-shape", case, f"mask {mask.shape} {mask.dtype}")
        return
    bad = (mask != want) & ~border
    if bad.any():
        i = int(np.nonzero(bad)[0][0])
        ctx.fail("outliers:wrong-rows", case, f"row {i}: |x-med|={d[i]!r}, m*MAD={m * mad!r}, kept={bool(mask[i])}")
    if not np.array_equal(np.asarray(kept), data[mask]):
        ctx.fail("outliers:data-mask-inconsistent", case, "returned rows are not data[mask]")


# ---- (d) jackknife ----------------------------------------------------------------------------
@st.composite
def jack_case(draw, tier="quick"):
    n = draw(st.integers(2, 40))
    num = draw(hnp.arrays(np.float64, (n,), elements=st.floats(-10, 10)))
    den = draw(hnp.arrays(np.float64, (n,), elements=st.floats(0.5, 5.0)))
    if draw(st.booleans()):
        den = -den
    return {"num": num, "den": den}


def jack_body(ctx, case):
    num, den = np.asarray(case["num"], float), np.asarray(case["den"], float)
    n = len(num)
    ctx.case(case, nontrivial=n >= 3 and len(set(num.tolist())) > 1, classes=[f"jackknife:n{'<' if n < 10 else '>='}10"])
    try:
        mean, sigma = stat_utils.jackknife_ratios(num.copy(), den.copy())
    except Exception as ex:
        ctx.fail(f"jackknife:raised-{type(ex).__name__}", case, f"{type(ex).__name__}: {ex}")
        return
    jk = np.array([np.delete(num, i).mean() / np.delete(den, i).mean() for i in range(n)])
    m_ref = jk.mean()
    s_ref = math.sqrt((n - 1) / n * ((jk - m_ref) ** 2).sum())
    scale = max(1.0, float(np.max(np.abs(jk))))
    ctx.check_close("jackknife:mean", case, "jackknife mean", mean, m_ref, 1e-10, scale)
    ctx.check_close("jackknife:sigma", case, "jackknife sigma", sigma, s_ref, 1e-10, scale)


# ---- (e) long series: definitions at scale -----------------------------------------------------
@st.composite
def long_case(draw, tier="quick"):
    return {"n": draw(st.sampled_from([150, 401, 1000, 2500] + ([10000] if tier == "thorough" else []))), "seed": draw(st.integers(0, 2**31 - 1)),
            "neql": draw(st.sampled_from([0, 1, 37, 100])), "wscale": 10.0 ** draw(st.integers(-6, 6)), "rho": draw(st.sampled_from([0.0, 0.7]))}


def long_body(ctx, case):
    rng = np.random.default_rng(int(case["seed"]))
    n = int(case["n"])
    from scipy.signal import lfilter

    e = lfilter([1.0], [1.0, -float(case["rho"])], rng.normal(size=n)) - 3.0
    w = (1 - rng.random(n)) * float(case["wscale"])
    series_body(ctx, {"w": w, "e": e, "neql": int(case["neql"]), "c_w": 3.0, "c_e": -2.5})


SUBCHECKS = [
    SubCheck("blocking_definitions", body=series_body, strategy=series_case, examples={"quick": 300, "thorough": 4000}, shards={"quick": 2, "thorough": 4}),
    SubCheck("blocking_long_series", body=long_body, strategy=long_case, examples={"quick": 20, "thorough": 200}, shards={"quick": 2, "thorough": 4}),
    SubCheck("blocking_ensembles", body=ensemble_body, strategy=ensemble_case, examples={"quick": 6, "thorough": 40}, shards={"quick": 4, "thorough": 8}, shrink=False),
    SubCheck("reject_outliers", body=outlier_body, strategy=outlier_case, examples={"quick": 400, "thorough": 5000}, shards={"quick": 1, "thorough": 2}),
    SubCheck("jackknife", body=jack_body, strategy=jack_case, examples={"quick": 300, "thorough": 4000}, shards={"quick": 1, "thorough": 2}),
]
