"""C09 — weights stay real, finite and non-negative; dead walkers stay dead (histories + fault injection)."""
import dataclasses

import numpy as np

from vlib import env

env.setup()
import hypothesis
import jax
import jax.numpy as jnp
from hypothesis import strategies as st

from ad_afqmc import hamiltonian as hmod
from ad_afqmc import propagation, sampling, wavefunctions
from vlib import gens
from vlib import samplerlib as sl
from vlib.checks import c10 as cp
from vlib.harness import SubCheck

PROPERTY = "C09"
LEVEL = "exploration"
RULE = (
    "Histories of 10..80 public propagate() steps (python loop over the jitted step, invariants evaluated after EVERY step) for the restricted / unrestricted "
    "phaseless propagators (RHF / UHF trials: converged, or poor = random orbitals) and for the CPMC family (cpmc, cpmc_slow, cpmc_nn, cpmc_nn_slow, continuous; "
    "UHF / GHF trials on 3-4 site rings), with Hypothesis-drawn time steps from 1e-4 to 5 ('far too large'), interaction scales up to strong, keys, and injected "
    "field values (+-1e3, +-1e150, +-inf, NaN) at generated (step, walker) positions; plus sampler block calls (_block_scan through propagate_phaseless) with a "
    "harness-side propagator subclass that injects a fault inside the block. Invariants: weights have a real dtype, are finite and >= 0; one step multiplies a weight "
    "by 0 or by a factor in [1e-3, 100] (phaseless) and never leaves a weight above 100 (all propagators); a weight that reached 0 stays 0 until a "
    "reconfiguration; pop_control_ene_shift is finite whenever sum(w) > 0; the killed-walker fraction reported by the sampler lies in [0, 1]. "
    "Non-trivial = at least one walker dies and at least one survives >= 5 further steps, or >= 1 injected fault."
)
ASSUMPTIONS = [
    "populations start from finite non-zero overlaps (walkers = trial + small noise), as the property states",
    "fault injection replaces entries of the auxiliary-field array handed to propagate(); for block-level faults a harness-side subclass of the propagator does the replacement (library code unchanged)",
]

FAULTS = [1e3, -1e3, 1e150, -1e150, float("inf"), float("-inf"), float("nan")]


def _fault_list(draw, steps, nw, nf, maxn=3):
    n = draw(st.integers(0, maxn))
    return [[draw(st.integers(0, steps - 1)), draw(st.integers(0, nw - 1)), draw(st.integers(0, nf - 1)), draw(st.sampled_from(list(range(len(FAULTS)))))] for _ in range(n)]


# ---- 1. phaseless step histories ----------------------------------------------------------------------------------------------------
PH_CONFIGS = [
    {"wt": "uhf", "shape": (3, (2, 1)), "nw": 6},
    {"wt": "rhf", "shape": (3, (1, 1)), "nw": 6},
    {"wt": "uhf", "shape": (4, (2, 2)), "nw": 8},
    {"wt": "rhf", "shape": (4, (2, 2)), "nw": 4},
]
PH_DTS = [1e-4, 0.01, 0.5, 5.0]


@st.composite
def ph_case(draw, tier, shard=0, nshards=1):
    combos = [(c, dt) for c in PH_CONFIGS for dt in PH_DTS]
    combos = [x for i, x in enumerate(combos) if i % nshards == shard] or combos
    c, dt = draw(st.sampled_from(combos))
    p = draw(sl.problem(walker_types=(c["wt"],), shapes={c["wt"]: [c["shape"]]}, n_walkers=(c["nw"],), dts=(dt,), nchol=(2,), chol_scale=(0.3, 1.0, 3.0)))
    p["n_batch"] = 1
    steps = draw(st.integers(10, 60 if tier == "quick" else 120))
    # a badly estimated trial energy drives the importance factor e^{dt (E_est - E_L)} across both edges of the window
    p["e_est_offset"] = draw(st.sampled_from([0.0, 0.0, 12.0, -12.0, 40.0, 150.0]))
    p.update({"steps": steps, "poor_trial": draw(st.booleans()), "faults": _fault_list(draw, steps, c["nw"], 2), "perturb": draw(st.sampled_from([0.02, 0.2])),
              # small starting weights: a one-step factor above 100 then survives the product clip and must be caught by the factor window itself
              "w0": [draw(st.sampled_from([1.0, 1.0, 0.5, 50.0, 0.0, 1e-3, 0.02])) for _ in range(c["nw"])]})
    if p["poor_trial"]:
        p["trial_orbs"] = draw(gens.orbitals(c["shape"][0], c["shape"][0], True))
    return p


def check_step(ctx, case, tagp, step, w_old, w_new, shift, kind):
    """Invariants of one step. kind = 'phaseless' or 'cpmc'."""
    if np.iscomplexobj(w_new):
        ctx.fail(f"{tagp}:complex-weights", case, f"step {step}: weights have dtype {w_new.dtype}")
        return False
    alive_state = "some-alive" if np.any(w_old > 0) else "all-dead"
    if not np.all(np.isfinite(w_new)):
        ctx.fail(f"{tagp}:weights-not-finite:{alive_state}", case, f"step {step}: weights {w_new.tolist()} (before: {w_old.tolist()})")
        return False
    if np.any(w_new < 0):
        ctx.fail(f"{tagp}:negative-weight", case, f"step {step}: weights {w_new.tolist()}")
        return False
    if np.any((w_old == 0) & (w_new != 0)):
        ctx.fail(f"{tagp}:dead-walker-resurrected", case, f"step {step}: weights {w_old.tolist()} -> {w_new.tolist()}")
        return False
    if np.any(w_new > 100.0 * (1 + 1e-12)):
        ctx.fail(f"{tagp}:weight-above-100", case, f"step {step}: weights {w_new.tolist()}")
        return False
    live = w_old > 0
    if kind == "phaseless":
        f = w_new[live] / w_old[live]
        bad = (f != 0) & ((f < 1e-3 * (1 - 1e-9)) | (f > 100 * (1 + 1e-9)))
        if np.any(bad):
            ctx.fail(f"{tagp}:factor-outside-window", case, f"step {step}: factors {f.tolist()}")
            return False
    # (CPMC: the 1e-8 cut is applied before the final exp(dt * shift) factor, so a surviving weight may legitimately end below 1e-8;
    #  only the bounds stated for every propagator - finite, >= 0, <= 100, dead stays dead - are required there)
    if np.sum(w_new) > 0 and not np.isfinite(shift):
        ctx.fail(f"{tagp}:shift-not-finite-while-alive", case, f"step {step}: pop_control_ene_shift {shift!r}, weights {w_new.tolist()}")
        return False
    return True


def ph_body(ctx, case):
    P = sl.Problem(case)
    if case["poor_trial"]:
        C = np.asarray(case["trial_orbs"], float)
        if P.wt == "rhf":
            P.wave_data = {"mo_coeff": jnp.asarray(C[:, : P.nelec[0]])}
        else:
            P.wave_data = {"mo_coeff": [jnp.asarray(C[:, : P.nelec[0]]), jnp.asarray(C[:, ::-1][:, : P.nelec[1]])]}
        P.wave_data["rdm1"] = jnp.asarray(np.asarray(P.trial.get_rdm1(P.wave_data)))
    hd = P.ham_data()
    pd = P.prop_data(hd, perturb=float(case["perturb"]))
    ov = np.asarray(pd["overlaps"])
    if not (np.all(np.isfinite(ov)) and np.all(np.abs(ov) > 1e-8)):
        ctx.count("rejected:initial-overlap-zero")
        hypothesis.assume(False)
    pd["weights"] = jnp.asarray(np.asarray(case["w0"], float))
    pd["e_estimate"] = pd["e_estimate"] + float(case.get("e_est_offset", 0.0))
    pd["pop_control_ene_shift"] = pd["e_estimate"]
    # the guarded hook is used only to classify what the history exercised (which window edges were reached)
    pd["verif_imp_fun"] = jnp.zeros((P.nw,), complex)
    pd["verif_theta"] = jnp.zeros((P.nw,))
    faults = case["faults"]
    tagp = f"phaseless:{P.wt}"
    steps = int(case["steps"])
    key = jax.random.PRNGKey(int(case["seed"]))
    died_at, survivors_after = None, 0
    ok = True
    for s in range(steps):
        key, sub = jax.random.split(key)
        fields = np.array(jax.random.normal(sub, (P.nw, P.chol.shape[0])))
        for fs, fw, fg, fv in faults:
            if fs == s:
                fields[fw, fg] = FAULTS[fv]
        w_old = np.asarray(pd["weights"])
        try:
            pd = P.prop.propagate(P.trial, hd, pd, jnp.asarray(fields), P.wave_data)
        except Exception as e:
            ctx.case(case, nontrivial=False)
            ctx.fail(f"{tagp}:raised-{type(e).__name__}", case, f"step {s}: {type(e).__name__}: {str(e)[:200]}")
            return
        w_new = np.asarray(pd["weights"])
        fraw = np.abs(np.asarray(pd["verif_imp_fun"])) * np.cos(np.asarray(pd["verif_theta"]))
        if np.any((fraw > 100) & (w_old > 0)):
            ctx.count("step-with-factor-above-100")
            if np.any((fraw > 100) & (w_old > 0) & (fraw * w_old <= 100)):
                ctx.count("step-with-factor-above-100-and-product-below-100")
        if np.any((fraw > 0) & (fraw < 1e-3) & (w_old > 0)):
            ctx.count("step-with-factor-below-1e-3")
        # the factor actually applied must be the hooked |I| cos(theta) if that lies in [1e-3, 100] and 0 otherwise, whatever weight the walker
        # carries (then zeroed if the product exceeds 100)
        g = np.where(np.isnan(fraw), 0.0, fraw)
        g = np.where((g < 1e-3) | (g > 100.0), 0.0, g)
        w_exp = w_old * g
        w_exp = np.where(w_exp > 100.0, 0.0, w_exp)
        edge = (np.abs(fraw - 1e-3) < 1e-12) | (np.abs(fraw - 100.0) < 1e-9) | (np.abs(w_old * fraw - 100.0) < 1e-9)
        badw = (np.abs(w_new - w_exp) > 1e-10 * np.maximum(1.0, np.abs(w_exp))) & ~edge & np.isfinite(w_new)
        if badw.any():
            k = int(np.argmax(badw))
            ctx.fail(f"{tagp}:factor-depends-on-carried-weight-or-leaves-window", case, f"step {s} walker {k}: weight {w_old[k]!r} -> {w_new[k]!r}, hooked factor {fraw[k]!r} gives {w_exp[k]!r}")
            break
        if not check_step(ctx, case, tagp, s, w_old, w_new, float(np.asarray(pd["pop_control_ene_shift"])), "phaseless"):
            ok = False
            break
        if died_at is None and np.any((w_old > 0) & (w_new == 0)) and np.any(w_new > 0):
            died_at = s
        if died_at is not None and np.any(w_new > 0):
            survivors_after = s - died_at
    ctx.case(case, nontrivial=bool(faults) or (died_at is not None and survivors_after >= 5), classes=[tagp, f"dt={case['dt']}", "poor-trial" if case["poor_trial"] else "converged-trial", f"faults={len(faults)}"] + (["a-walker-died-others-survived"] if died_at is not None and survivors_after >= 5 else []))


# ---- 2. sampler blocks with a fault injected inside the block -------------------------------------------------------------------------------
def faulty(base):
    @dataclasses.dataclass
    class Faulty(base):
        fault: tuple = ()

        @jax.jit
        def _noop(self):
            return 0

        def propagate(self, trial, ham_data, prop_data, fields, wave_data):
            for fw, fg, fv in self.fault:
                fields = fields.at[fw, fg].set(FAULTS[fv])
            return super().propagate(trial, ham_data, prop_data, fields, wave_data)

        def __hash__(self):
            return hash((base.__name__, self.fault) + tuple(v for k, v in self.__dict__.items() if k != "fault"))

    return Faulty


FaultyR = faulty(propagation.propagator_restricted)
FaultyU = faulty(propagation.propagator_unrestricted)
BLK_CONFIGS = [
    {"wt": "uhf", "shape": (3, (2, 1)), "nw": 6, "dt": 0.01, "steps": 3, "ene": 2, "sr": 2},
    {"wt": "rhf", "shape": (3, (1, 1)), "nw": 6, "dt": 0.5, "steps": 4, "ene": 1, "sr": 2},
    {"wt": "uhf", "shape": (4, (2, 2)), "nw": 4, "dt": 5.0, "steps": 2, "ene": 2, "sr": 1},
    {"wt": "rhf", "shape": (4, (2, 2)), "nw": 4, "dt": 1e-4, "steps": 5, "ene": 1, "sr": 1},
]


@st.composite
def blk_case(draw, tier, shard=0, nshards=1):
    cfgs = [c for i, c in enumerate(BLK_CONFIGS) if i % nshards == shard] or BLK_CONFIGS
    c = draw(st.sampled_from(cfgs))
    p = draw(sl.problem(walker_types=(c["wt"],), shapes={c["wt"]: [c["shape"]]}, n_walkers=(c["nw"],), dts=(c["dt"],), nchol=(2,), chol_scale=(0.3, 1.0)))
    p["n_batch"] = 1
    nf = draw(st.sampled_from([0, 1, 1, 2]))
    # one fixed fault position per configuration (static for jit); the injected value varies
    p.update({"n_prop_steps": c["steps"], "n_ene_blocks": c["ene"], "n_sr_blocks": c["sr"], "fault": [[i, i % 2, draw(st.integers(0, len(FAULTS) - 1))] for i in range(nf)], "perturb": 0.05, "calls": draw(st.integers(1, 3)),
              "entry": ["plain", "ad_nosr", "ad", "ad_nosr_norot"][BLK_CONFIGS.index(c) % 4]})
    return p


def blk_body(ctx, case):
    P = sl.Problem(case)
    if not P.converged:
        ctx.count("rejected:scf-not-converged")
        hypothesis.assume(False)
    fault = tuple(tuple(int(x) for x in f) for f in case["fault"])
    base = FaultyR if P.wt == "rhf" else FaultyU
    prop = base(dt=P.dt, n_walkers=P.nw, n_batch=1, fault=fault)
    hd = P.ham.build_measurement_intermediates(dict(P.ham_data0), P.trial, P.wave_data)
    hd = P.ham.build_propagation_intermediates(hd, prop, P.trial, P.wave_data)
    pd = P.prop_data(hd, perturb=float(case["perturb"]))
    smp = sampling.sampler(n_prop_steps=int(case["n_prop_steps"]), n_ene_blocks=int(case["n_ene_blocks"]), n_sr_blocks=int(case["n_sr_blocks"]), n_blocks=1)
    tagp = f"phaseless-block:{P.wt}"
    ctx.case(case, nontrivial=bool(fault), classes=[tagp, f"dt={P.dt}", f"faults={len(fault)}", "entry:" + case.get("entry", "plain")] + [f"fault-value={FAULTS[f[2]]!r}" for f in fault])
    for call in range(int(case["calls"])):
        try:
            if case.get("entry", "plain") == "plain":
                e, pd = smp.propagate_phaseless(P.ham, hd, prop, pd, P.trial, P.wave_data)
            else:
                fn = {"ad": smp.propagate_phaseless_ad, "ad_nosr": smp.propagate_phaseless_ad_nosr, "ad_nosr_norot": smp.propagate_phaseless_ad_nosr_norot}[case["entry"]]
                e, pd = fn(P.ham, hd, 0.0, 0.0 * hd["h1"], prop, pd, P.trial, P.wave_data)
        except Exception as ex:
            ctx.fail(f"{tagp}:raised-{type(ex).__name__}", case, f"{type(ex).__name__}: {str(ex)[:200]}")
            return
        w = np.asarray(pd["weights"])
        shift = float(np.asarray(pd["pop_control_ene_shift"]))
        nk = float(np.asarray(pd["n_killed_walkers"]))
        big = any(FAULTS[f[2]] != FAULTS[f[2]] or abs(FAULTS[f[2]]) > 1e100 for f in fault)
        sub = "nan-walker-alive-population" if big else "regular"
        if np.iscomplexobj(w) or not np.all(np.isfinite(w)) or np.any(w < 0):
            ctx.fail(f"{tagp}:weights-invalid:{sub}", case, f"call {call}: weights {w.tolist()}")
            return
        if np.sum(w) > 0 and not np.isfinite(shift):
            ctx.fail(f"{tagp}:shift-not-finite-while-alive:{sub}", case, f"call {call}: pop_control_ene_shift {shift!r} with weights {w.tolist()} (block energy {float(e)!r})")
            return
        if not (0.0 <= nk <= 1.0):
            ctx.fail(f"{tagp}:killed-fraction-outside-unit-interval", case, f"call {call}: n_killed_walkers {nk!r}")
            return
        pd = prop.orthonormalize_walkers(pd)


# ---- 3. CPMC family -------------------------------------------------------------------------------------------------------------------------
CPMC_FAMILY = ["cpmc", "cpmc_slow", "cpmc_nn", "cpmc_nn_slow", "continuous"]


@st.composite
def cpmc_case(draw, tier, shard=0, nshards=1):
    combos = [(f, dt) for f in CPMC_FAMILY for dt in (0.005, 0.05, 0.15, 0.5, 2.0)]
    combos = [x for i, x in enumerate(combos) if i % nshards == shard] or combos
    fam, dt = draw(st.sampled_from(combos))
    n = draw(st.sampled_from([3, 4]))
    nelec = draw(st.sampled_from([(2, 1), (1, 1)] if n == 3 else [(2, 2), (2, 1)]))
    h1 = cp.lattice_h1("chain", n)
    t = draw(cp.trial_and_walker(n, nelec, h1, kinds=("uhf", "ghf") if fam != "continuous" else ("uhf",)))
    if draw(st.integers(0, 3)) == 0:
        # poor trial: random orthonormal orbitals
        t["mo_up"] = draw(gens.orbitals(n, nelec[0], True))
        t["mo_dn"] = draw(gens.orbitals(n, nelec[1], True))
        t["poor"] = True
    steps = draw(st.integers(10, 40 if tier == "quick" else 150))
    return {"family": fam, "dt": dt, "n": n, "nelec": list(nelec), "trial": t, "U": draw(st.sampled_from([1.0, 4.0, 8.0, 12.0])), "U1": draw(st.sampled_from([0.5, 2.0])),
            "steps": steps, "nw": 8, "seed": draw(st.integers(0, 2**31 - 1)), "faults": _fault_list(draw, steps, 8, n, maxn=2),
            # the Cholesky vectors only enter the energy estimate that anchors the population-control shift: either absent (the estimate is
            # the kinetic energy alone and the whole population drifts) or the on-site interaction (walkers die one at a time)
            "chol_mode": draw(st.sampled_from(["zero", "hubbard", "hubbard"])), "lattice": draw(st.sampled_from(["chain", "ring"]))}


def cpmc_body(ctx, case):
    fam, n, nelec = case["family"], int(case["n"]), (int(case["nelec"][0]), int(case["nelec"][1]))
    t = case["trial"]
    dt, nw = float(case["dt"]), int(case["nw"])
    h1 = cp.lattice_h1("chain", n)
    if case.get("lattice") == "ring" and n > 2:
        h1 = np.array(h1)
        h1[0, n - 1] = h1[n - 1, 0] = -1.0
    trial, wd, C = cp.build_cpmc_trial(n, nelec, t)
    adj = -h1
    neighbors = tuple((i, j) for i in range(n) for j in range(i + 1, n) if adj[i, j] != 0)
    prop = {
        "cpmc": lambda: propagation.propagator_cpmc(dt=dt, n_walkers=nw),
        "cpmc_slow": lambda: propagation.propagator_cpmc_slow(dt=dt, n_walkers=nw),
        "cpmc_nn": lambda: propagation.propagator_cpmc_nn(dt=dt, n_walkers=nw, neighbors=neighbors),
        "cpmc_nn_slow": lambda: propagation.propagator_cpmc_nn_slow(dt=dt, n_walkers=nw, neighbors=neighbors),
        "continuous": lambda: propagation.propagator_cpmc_continuous(dt=dt, n_walkers=nw),
    }[fam]()
    U = float(case["U"])
    H = hmod.hamiltonian(n)
    chol = np.zeros((n, n, n))
    if case.get("chol_mode") == "hubbard":
        chol[np.arange(n), np.arange(n), np.arange(n)] = np.sqrt(U)
    hd = {"h0": 0.0, "h1": jnp.asarray(np.stack([h1, h1])), "chol": jnp.asarray(chol.reshape(n, n * n)), "ene0": 0.0, "u": U, "u_1": float(case["U1"])}
    if fam == "continuous":
        hd["hs_constant"] = jnp.sqrt(U * dt) * jnp.ones(n)
    faults = case["faults"]
    tagp = f"cpmc:{fam}"
    try:
        hd = H.build_measurement_intermediates(hd, trial, wd)
        hd = H.build_propagation_intermediates(hd, prop, trial, wd)
        key = jax.random.PRNGKey(int(case["seed"]))
        noise = np.asarray(jax.random.normal(key, (nw, n, nelec[0] + nelec[1]))) * 0.05
        wu, wdn = np.asarray(t["wu"], float), np.asarray(t["wd"], float)
        walkers = [jnp.asarray(np.tile(wu, (nw, 1, 1)) + noise[:, :, : nelec[0]]) + 0j, jnp.asarray(np.tile(wdn, (nw, 1, 1)) + noise[:, :, nelec[0] :]) + 0j]
        pd = prop.init_prop_data(trial, wd, hd, walkers)
        pd["key"] = key
    except Exception as e:
        ctx.case(case, nontrivial=False)
        ctx.fail(f"{tagp}:setup-raised-{type(e).__name__}", case, f"{type(e).__name__}: {str(e)[:200]}")
        return
    ov = np.asarray(pd["overlaps"])
    if not (np.all(np.isfinite(ov)) and np.all(np.abs(ov) > 1e-6)):
        ctx.count("rejected:initial-overlap-zero")
        hypothesis.assume(False)
    died_at, survivors_after = None, 0
    for s in range(int(case["steps"])):
        key, sub = jax.random.split(key)
        fields = np.array(jax.random.normal(sub, (nw, n)))
        for fs, fw, fg, fv in faults:
            if fs == s:
                fields[fw, fg] = FAULTS[fv]
        w_old = np.asarray(pd["weights"])
        try:
            pd = prop.propagate(trial, hd, pd, jnp.asarray(fields), wd)
        except Exception as e:
            ctx.case(case, nontrivial=False)
            ctx.fail(f"{tagp}:raised-{type(e).__name__}", case, f"step {s}: {type(e).__name__}: {str(e)[:200]}")
            return
        w_new = np.asarray(pd["weights"])
        sub_tag = tagp + (":large-dt" if dt * U >= 2.0 else "")
        if not check_step(ctx, case, sub_tag, s, w_old, w_new, float(np.asarray(pd["pop_control_ene_shift"])), "cpmc"):
            break
        if died_at is None and np.any((w_old > 0) & (w_new == 0)) and np.any(w_new > 0):
            died_at = s
        if died_at is not None and np.any(w_new > 0):
            survivors_after = s - died_at
    ctx.case(case, nontrivial=bool(faults) or (died_at is not None and survivors_after >= 5), classes=[tagp, f"dt={dt}", f"U={U}", f"chol={case.get('chol_mode', 'zero')}", f"lattice={case.get('lattice', 'chain')}", "poor-trial" if t.get("poor") else "good-trial", f"faults={len(faults)}"] + (["a-walker-died-others-survived"] if died_at is not None and survivors_after >= 5 else []))


SUBCHECKS = [
    SubCheck("phaseless_step_histories", body=ph_body, strategy=ph_case, examples={"quick": 6, "thorough": 80}, shards={"quick": 8, "thorough": 16}, shrink=False),
    SubCheck("phaseless_blocks_with_injected_faults", body=blk_body, strategy=blk_case, examples={"quick": 6, "thorough": 60}, shards={"quick": 4, "thorough": 4}, shrink=False),
    SubCheck("cpmc_step_histories", body=cpmc_body, strategy=cpmc_case, examples={"quick": 6, "thorough": 60}, shards={"quick": 13, "thorough": 25}, shrink=False),
]
