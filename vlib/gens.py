"""Hypothesis strategies and case -> library-object builders shared by the Fock-oracle checks.

A *case* is a plain dict of python scalars / numpy arrays (JSON-encodable by harness.encode), e.g.
  {"kind": "uhf", "norb": 3, "nelec": [2, 1], "params": {...}, "walker": {"up": ..., "dn": ...}, "ham": {...}}
Builders turn it into (trial object, wave_data with jnp arrays, extra).
"""
import itertools

import numpy as np
from hypothesis import strategies as st
from hypothesis.extra import numpy as hnp

# ------------------------------------------------------------------------------------------------
# shape tables  (kind -> list of (norb, (n_up, n_dn)));  JIT compiles once per entry and process
# ------------------------------------------------------------------------------------------------
CLOSED = [(2, (1, 1)), (3, (1, 1)), (3, (2, 2)), (4, (2, 2)), (4, (1, 1)), (4, (3, 3))]
OPEN = [(2, (1, 0)), (2, (2, 1)), (3, (2, 1)), (3, (3, 1)), (3, (2, 0)), (4, (2, 1)), (4, (3, 1)), (4, (3, 2)), (3, (1, 0))]
OPEN_DN1 = [s for s in OPEN if s[1][1] >= 1]
# CI kinds need at least one virtual orbital per spin
CI_CLOSED = [s for s in CLOSED if s[1][0] < s[0]]
CI_OPEN = [s for s in OPEN if s[1][0] < s[0]]
CI_OPEN_DN1 = [s for s in CI_OPEN if s[1][1] >= 1]

SHAPES = {
    "rhf": CLOSED + [(2, (2, 2))],
    "uhf": CLOSED[:4] + OPEN,
    "ghf": CLOSED[:3] + OPEN,
    "noci": CLOSED[:3] + OPEN,
    "multislater": CLOSED[:4] + OPEN_DN1,
    "cisd": CI_CLOSED,
    "cisd_faster": CI_CLOSED,
    "CISD": CI_CLOSED,
    "CISD_THC": CI_CLOSED,
    "ucisd": CI_CLOSED[:3] + CI_OPEN,
    "UCISD": CI_CLOSED[:3] + CI_OPEN_DN1,
    "GCISD": [s for s in CI_CLOSED[:2] + CI_OPEN_DN1 if s[0] <= 3] + [(4, (2, 1))],
}
# thorough tier: a few norb = 5 shapes (Fock dimension 1024) for the kinds whose compilation stays cheap
for _k, _extra in {"rhf": [(5, (2, 2)), (5, (3, 3))], "uhf": [(5, (3, 2)), (5, (2, 1))], "ghf": [(5, (2, 1))], "noci": [(5, (3, 2))],
                   "multislater": [(5, (2, 2))], "cisd": [(5, (2, 2))], "CISD": [(5, (2, 2))], "ucisd": [(5, (3, 2))], "UCISD": [(5, (2, 1))]}.items():
    SHAPES[_k] = SHAPES[_k] + _extra
QUICK_SHAPES = {
    "rhf": [(2, (1, 1)), (3, (2, 2)), (4, (2, 2))],
    "uhf": [(3, (2, 1)), (4, (2, 2)), (3, (2, 0)), (4, (3, 1))],
    "ghf": [(3, (2, 1)), (3, (1, 1)), (2, (1, 0))],
    "noci": [(3, (2, 1)), (3, (2, 2)), (3, (2, 0))],
    "multislater": [(3, (2, 1)), (4, (2, 2)), (4, (2, 1))],
    "cisd": [(3, (1, 1)), (4, (2, 2))],
    "cisd_faster": [(4, (2, 2)), (3, (2, 2))],
    "CISD": [(3, (2, 2)), (4, (2, 2))],
    "CISD_THC": [(3, (1, 1)), (4, (2, 2))],
    "ucisd": [(3, (2, 1)), (4, (2, 2)), (3, (2, 0)), (4, (2, 1))],  # (4,(2,1)): alpha doubles exist while the beta channel has none
    "UCISD": [(3, (2, 1)), (4, (2, 1))],
    "GCISD": [(3, (2, 1)), (3, (1, 1))],
}
ALL_KINDS = list(SHAPES)
RESTRICTED_ONLY = {"cisd", "cisd_faster", "CISD", "CISD_THC"}  # define only the *_restricted entry points
AD_KINDS = {"multislater", "CISD", "UCISD", "GCISD", "CISD_THC"}


def shapes_for(kind, tier):
    return QUICK_SHAPES[kind] if tier == "quick" else SHAPES[kind]


def el(lo=-1.0, hi=1.0):
    return st.floats(lo, hi, allow_nan=False, allow_infinity=False, width=32)


def real(shape, lo=-1.0, hi=1.0):
    return hnp.arrays(np.float64, shape, elements=el(lo, hi), fill=st.nothing())


@st.composite
def cplx(draw, shape):
    return draw(real(shape)) + 1j * draw(real(shape))


def orthonormalize(A):
    """Deterministic orthonormal basis of span(A) (QR with positive diagonal); A must have full column rank."""
    q, r = np.linalg.qr(A)
    d = np.sign(np.diag(r))
    d[d == 0] = 1.0
    return q * d


@st.composite
def orbitals(draw, n, k, orthonormal=None):
    """Real (n,k) orbital matrix of full column rank: a leading identity block plus noise, optionally orthonormalised."""
    A = draw(real((n, k))) * 0.7 + np.eye(n, k) * draw(st.sampled_from([1.0, 1.0, 1.5, -1.0]))
    perm = draw(st.permutations(range(n))) if draw(st.booleans()) else list(range(n))
    A = A[list(perm), :]
    if orthonormal is None:
        orthonormal = draw(st.booleans())
    if k > 0 and np.linalg.svd(A, compute_uv=False)[-1] < 1e-3:
        A = np.eye(n, k)
    return orthonormalize(A) if (orthonormal and k > 0) else A


@st.composite
def orthogonal(draw, n):
    A = draw(real((n, n))) * 0.8 + np.eye(n)
    if abs(np.linalg.det(A)) < 1e-3:
        A = np.eye(n)
    Q = orthonormalize(A)
    if draw(st.booleans()):
        Q = Q[:, list(draw(st.permutations(range(n))))]
    return Q


# ------------------------------------------------------------------------------------------------
# trial parameters
# ------------------------------------------------------------------------------------------------
def _antisym(c):
    c = c - c.transpose(2, 1, 0, 3)
    c = c - c.transpose(0, 3, 2, 1)
    return c


def all_dets(norb, nelec):
    def occs(n, k):
        return [tuple(1 if i in c else 0 for i in range(n)) for c in itertools.combinations(range(n), k)]

    return [(a, b) for a in occs(norb, nelec[0]) for b in occs(norb, nelec[1])]


@st.composite
def trial_params(draw, kind, norb, nelec, orthonormal=None):
    na, nb = nelec
    nva, nvb = norb - na, norb - nb
    amp = draw(st.sampled_from([1.0, 1.0, 0.3, 3.0]))
    if kind == "rhf":
        return {"mo_coeff": draw(orbitals(norb, na, orthonormal))}
    if kind == "uhf":
        return {"mo_coeff": [draw(orbitals(norb, na, orthonormal)), draw(orbitals(norb, nb, orthonormal))]}
    if kind == "ghf":
        base = np.zeros((2 * norb, na + nb))
        base[:norb, :na] = np.eye(norb, na)
        base[norb:, na:] = np.eye(norb, nb)
        C = base + draw(real((2 * norb, na + nb))) * draw(st.sampled_from([0.0, 0.3, 0.7]))
        if np.linalg.svd(C, compute_uv=False)[-1] < 1e-3:
            C = base
        if orthonormal is None:
            orthonormal = draw(st.booleans())
        return {"mo_coeff": orthonormalize(C) if orthonormal else C}
    if kind == "noci":
        nd = draw(st.integers(1, 3))
        ci = draw(real((nd,))) + np.where(np.arange(nd) == 0, 1.5, 0.0)
        ups = np.stack([draw(orbitals(norb, na, orthonormal)) for _ in range(nd)])
        dns = np.stack([draw(orbitals(norb, nb, orthonormal)) for _ in range(nd)])
        return {"ci": ci, "dets_up": ups, "dets_dn": dns}
    if kind == "multislater":
        dets = all_dets(norb, nelec)
        k = draw(st.integers(1, min(len(dets), 8)))
        order = draw(st.permutations(range(len(dets))))[:k]
        coeffs = draw(real((k,))) * amp
        coeffs = coeffs + np.where(np.arange(k) == 0, np.sign(coeffs[0] + 1e-9) * 1.0, 0.0)  # reference coefficient away from 0
        chosen = [dets[i] for i in order]
        if k >= 2 and draw(st.integers(0, 2)) == 0:
            # reference with the *highest* orbitals occupied and the aufbau determinant among the excitations: the same-spin multiple
            # excitations then have their particles below their holes, where the sign bookkeeping of the excitation list is most delicate
            ta, tb = tuple([0] * (norb - na) + [1] * na), tuple([0] * (norb - nb) + [1] * nb)
            ba, bb = tuple([1] * na + [0] * (norb - na)), tuple([1] * nb + [0] * (norb - nb))
            # ... or with different orbitals occupied in the two spin channels of the reference (restricted-walker entry points must
            # take the beta rows from the beta reference, not from the alpha one)
            top, bot = draw(st.sampled_from([((ta, tb), (ba, bb)), ((ta, bb), (ba, tb)), ((ba, tb), (ta, bb))]))
            rest = [d for d in chosen if d not in (top, bot)]
            chosen = ([top, bot] + rest)[:k] if top != bot else chosen
        d0 = chosen[0]
        need = max(
            (sum(abs(np.array(d[0]) - np.array(d0[0]))) // 2 + sum(abs(np.array(d[1]) - np.array(d0[1]))) // 2) for d in chosen
        )
        mx = int(max(1, need)) + draw(st.integers(0, 1))
        return {"dets": [[list(d[0]), list(d[1])] for d in chosen], "coeffs": coeffs, "max_excitation": mx}
    if kind in ("cisd", "cisd_faster", "CISD"):
        ci2 = draw(real((na, nva, na, nva))) * amp
        ci2 = (ci2 + ci2.transpose(2, 3, 0, 1)) / 2
        return {"ci1": draw(real((na, nva))) * amp, "ci2": ci2}
    if kind == "CISD_THC":
        P = draw(st.integers(1, 3))
        V = draw(real((P, P)))
        return {"ci1": draw(real((na, nva))) * amp, "Xocc": draw(real((P, na))), "Xvirt": draw(real((P, nva))), "VKL": (V + V.T) / 2 * amp}
    if kind in ("ucisd", "UCISD"):
        moB = draw(orthogonal(norb)) if draw(st.booleans()) else np.eye(norb)
        return {
            "ci1A": draw(real((na, nva))) * amp,
            "ci1B": draw(real((nb, nvb))) * amp,
            "ci2AA": _antisym(draw(real((na, nva, na, nva)))) * amp,
            "ci2BB": _antisym(draw(real((nb, nvb, nb, nvb)))) * amp,
            "ci2AB": draw(real((na, nva, nb, nvb))) * amp,
            "moB": moB,
        }
    if kind == "GCISD":
        N, M = na + nb, 2 * norb
        # spin-orbital basis: [up occupied, down occupied, up virtual, down virtual] of two orthogonal spatial bases, then a
        # (possibly strong) spin-mixing rotation; keeps UHF-type walkers able to overlap with the reference
        Ua, Ub = (draw(orthogonal(norb)), draw(orthogonal(norb))) if draw(st.booleans()) else (np.eye(norb), np.eye(norb))
        base = np.zeros((M, M))
        base[:norb, :norb] = Ua
        base[norb:, norb:] = Ub
        order = list(range(na)) + list(range(norb, norb + nb)) + list(range(na, norb)) + list(range(norb + nb, M))
        mixamp = draw(st.sampled_from([0.0, 0.15, 0.5]))
        mix = orthonormalize(np.eye(M) + mixamp * draw(real((M, M)))) if mixamp else np.eye(M)
        C = base[:, order] @ mix
        return {"ci1": draw(real((N, M - N))) * amp, "ci2": _antisym(draw(real((N, M - N, N, M - N)))) * amp, "mo_coeff": C}
    raise ValueError(kind)


def build_trial(kind, norb, nelec, params, n_batch=1, eps=None):
    """(trial, wave_data, extra) for the library from a params dict."""
    import jax.numpy as jnp

    from ad_afqmc import pyscf_interface, wavefunctions

    nelec = (int(nelec[0]), int(nelec[1]))
    J = lambda x: jnp.asarray(np.asarray(x))
    extra = {}
    if kind == "rhf":
        return wavefunctions.rhf(norb, nelec, n_batch=n_batch), {"mo_coeff": J(params["mo_coeff"])}, extra
    if kind == "uhf":
        return wavefunctions.uhf(norb, nelec, n_batch=n_batch), {"mo_coeff": [J(params["mo_coeff"][0]), J(params["mo_coeff"][1])]}, extra
    if kind == "ghf":
        return wavefunctions.ghf(norb, nelec, n_batch=n_batch), {"mo_coeff": J(params["mo_coeff"])}, extra
    if kind == "noci":
        nd = len(np.asarray(params["ci"]))
        wd = {"ci_coeffs_dets": [J(params["ci"]), [J(params["dets_up"]), J(params["dets_dn"])]]}
        return wavefunctions.noci(norb, nelec, nd, n_batch=n_batch), wd, extra
    if kind == "multislater":
        state = {}
        for d, c in zip(params["dets"], np.asarray(params["coeffs"], float)):
            state[(tuple(int(x) for x in d[0]), tuple(int(x) for x in d[1]))] = float(c)
        mx = int(params["max_excitation"])
        Acre, Ades, Bcre, Bdes, coeff, ref_det = pyscf_interface.get_excitations(state=state, max_excitation=mx, ndets=len(state))
        wd = {"Acre": Acre, "Ades": Ades, "Bcre": Bcre, "Bdes": Bdes, "coeff": coeff, "ref_det": ref_det}
        extra["state"] = state
        kw = {} if eps is None else {"eps": eps}
        return wavefunctions.multislater(norb, nelec, max_excitation=mx, n_batch=n_batch, **kw), wd, extra
    if kind in ("cisd", "cisd_faster"):
        cls = wavefunctions.cisd if kind == "cisd" else wavefunctions.cisd_faster
        return cls(norb, nelec, n_batch=n_batch), {"ci1": J(params["ci1"]), "ci2": J(params["ci2"])}, extra
    kw = {} if eps is None else {"eps": eps}
    if kind == "CISD":
        return wavefunctions.CISD(norb, nelec, n_batch=n_batch, **kw), {"ci1": J(params["ci1"]), "ci2": J(params["ci2"])}, extra
    if kind == "CISD_THC":
        wd = {k: J(params[k]) for k in ("ci1", "Xocc", "Xvirt", "VKL")}
        return wavefunctions.CISD_THC(norb, nelec, n_batch=n_batch, **kw), wd, extra
    if kind in ("ucisd", "UCISD"):
        wd = {k: J(params[k]) for k in ("ci1A", "ci1B", "ci2AA", "ci2BB", "ci2AB")}
        wd["mo_coeff"] = [jnp.eye(norb), J(params["moB"])]
        if kind == "ucisd":
            return wavefunctions.ucisd(norb, nelec, n_batch=n_batch), wd, extra
        return wavefunctions.UCISD(norb, nelec, n_batch=n_batch, **kw), wd, extra
    if kind == "GCISD":
        wd = {"ci1": J(params["ci1"]), "ci2": J(params["ci2"]), "mo_coeff": J(params["mo_coeff"])}
        return wavefunctions.GCISD(norb, nelec, n_batch=n_batch, **kw), wd, extra
    raise ValueError(kind)


def numpy_wave_data(kind, norb, nelec, params):
    """wave_data-shaped dict with numpy arrays for trialref (same content build_trial passes to the library)."""
    if kind == "noci":
        return {"ci_coeffs_dets": [np.asarray(params["ci"]), [np.asarray(params["dets_up"]), np.asarray(params["dets_dn"])]]}
    if kind in ("ucisd", "UCISD"):
        wd = {k: np.asarray(params[k]) for k in ("ci1A", "ci1B", "ci2AA", "ci2BB", "ci2AB")}
        wd["mo_coeff"] = [np.eye(norb), np.asarray(params["moB"])]
        return wd
    if kind == "multislater":
        return {}
    return {k: (np.asarray(v) if not isinstance(v, list) else [np.asarray(x) for x in v]) for k, v in params.items()}


def _amp(W, rows):
    """||W|| * ||inv(W[rows])||: amplification of round-off in G = W inv(W[rows]) (>= 1; equals cond for a square W)."""
    if W.shape[1] == 0:
        return 1.0
    B = W[rows, :]
    sv = np.linalg.svd(B, compute_uv=False)
    if sv[-1] == 0:
        return float("inf")
    return float(np.linalg.norm(W, 2) / sv[-1])


def reference_block_cond(kind, norb, nelec, params, up, dn):
    """Round-off amplification of the block a Wick-type formula inverts (1.0 for kinds that invert only the overlap matrix)."""
    na, nb = nelec
    try:
        if kind in ("cisd", "cisd_faster", "CISD", "CISD_THC"):
            return _amp(up, list(range(na)))
        if kind in ("ucisd", "UCISD"):
            dnB = np.asarray(params["moB"]).T @ dn
            return max(_amp(up, list(range(na))), _amp(dnB, list(range(nb))))
        if kind == "GCISD":
            W = np.zeros((2 * norb, na + nb), complex)
            W[:norb, :na] = up
            W[norb:, na:] = dn
            W = np.asarray(params["mo_coeff"]).T @ W
            return _amp(W, list(range(na + nb)))
        if kind == "multislater":
            d0 = params["dets"][0]
            ia = [i for i, o in enumerate(d0[0]) if o]
            ib = [i for i, o in enumerate(d0[1]) if o]
            return max(_amp(up, ia), _amp(dn, ib))
        if kind == "noci":
            # every determinant of the expansion gets its own green's function inv(D_k^T W): a determinant (nearly) orthogonal
            # to the walker is a removable singularity of the formula
            worst = 1.0
            for Dk_u, Dk_d in zip(np.asarray(params["dets_up"]), np.asarray(params["dets_dn"])):
                # (amplification |D| |W| / sigma_min(D^T W), not the condition number: for a single electron the block is 1 x 1, its
                # condition number is 1 whatever its size, yet its inverse is what the formula multiplies with)
                for Dk, W, n in ((Dk_u, up, na), (Dk_d, dn, nb)):
                    if n:
                        sv = np.linalg.svd(Dk[:, :n].T @ W, compute_uv=False)
                        worst = max(worst, float(np.linalg.norm(Dk[:, :n], 2) * np.linalg.norm(W, 2) / max(sv[-1], 1e-300)))
            return worst
    except np.linalg.LinAlgError:
        return float("inf")
    return 1.0


# ------------------------------------------------------------------------------------------------
# walkers and Hamiltonians
# ------------------------------------------------------------------------------------------------
def reference_frame(kind, norb, nelec, params):
    """Orbitals (norb x n_up, norb x n_dn) of the trial's reference determinant in the working basis; walkers built as
    frame + noise keep the block that Wick-type formulas invert (and the overlap itself) well conditioned."""
    na, nb = nelec
    Ru, Rd = np.eye(norb, na), np.eye(norb, nb)
    try:
        if kind == "rhf":
            Ru, Rd = np.asarray(params["mo_coeff"])[:, :na], np.asarray(params["mo_coeff"])[:, :nb]
        elif kind == "uhf":
            Ru, Rd = np.asarray(params["mo_coeff"][0]), np.asarray(params["mo_coeff"][1])
        elif kind == "noci":
            Ru, Rd = np.asarray(params["dets_up"])[0][:, :na], np.asarray(params["dets_dn"])[0][:, :nb]
        elif kind == "multislater":
            d0 = params["dets"][0]
            Ru = np.eye(norb)[:, [i for i, o in enumerate(d0[0]) if o]]
            Rd = np.eye(norb)[:, [i for i, o in enumerate(d0[1]) if o]]
        elif kind in ("ucisd", "UCISD"):
            Rd = np.asarray(params["moB"])[:, :nb]
        elif kind in ("ghf", "GCISD"):
            C = np.asarray(params["mo_coeff"])[:, : na + nb]
            # best collinear approximation: leading left singular vectors of the up / down blocks
            Ru = np.linalg.svd(C[:norb], full_matrices=False)[0][:, :na]
            Rd = np.linalg.svd(C[norb:], full_matrices=False)[0][:, :nb]
    except Exception:
        pass
    return Ru.reshape(norb, na), Rd.reshape(norb, nb)


@st.composite
def walker(draw, norb, nelec, restricted=False, frame=None):
    """Complex, non-orthonormal walker. Variants: generic / near the trial's reference determinant / column-scaled."""
    na, nb = nelec
    variant = draw(st.sampled_from(["generic", "near-ref", "near-ref", "scaled", "near-ref-zero-row"]))
    up = draw(cplx((norb, na)))
    dn = up[:, :nb].copy() if restricted else draw(cplx((norb, nb)))
    Ru, Rd = frame if frame is not None else (np.eye(norb, na), np.eye(norb, nb))
    if restricted:
        # one matrix serves both spins: keep the rows of both references well conditioned
        Ru = Ru + 0.7 * np.pad(Rd, ((0, 0), (0, na - nb))) if not np.allclose(Ru[:, :nb], Rd) else Ru
        Rd = Ru[:, :nb]
    if variant != "generic":
        up = 0.6 * up + Ru
        dn = 0.6 * dn + Rd
    else:
        # still dominated by the drawn noise, but never exactly rank deficient when the draw shrinks to zero
        up = up + 0.3 * Ru
        dn = dn + 0.3 * Rd
    if variant == "near-ref-zero-row":
        # an orbital that the reference leaves empty in both spin channels gets an *exactly* zero row: the corresponding column of every
        # half Green's function vanishes identically and excitation blocks through it are exactly singular (where jnp.linalg.det's
        # derivative rule silently returns 0 - the defect repaired in 59024d9)
        free = [r for r in range(norb) if not np.any(Ru[r]) and not np.any(Rd[r])]
        if free:
            r = free[draw(st.integers(0, len(free) - 1))]
            up = up.copy()
            dn = dn.copy()
            up[r, :] = 0.0
            dn[r, :] = 0.0
        else:
            variant = "near-ref"
    if variant == "scaled":
        su = np.array([10.0 ** draw(st.integers(-2, 2)) for _ in range(na)])
        up = up * su[None, :]
        dn = dn * (su[None, :nb] if restricted else np.array([10.0 ** draw(st.integers(-2, 2)) for _ in range(nb)])[None, :])
    return {"up": up, "dn": dn, "variant": variant}


@st.composite
def hamiltonian(draw, norb, spin_dependent=False, nchol=None, chol_kinds=("generic", "generic", "generic", "diagonal", "zero")):
    nchol = draw(st.sampled_from([1, 2, 2, 3, 3])) if nchol is None else nchol
    h0 = draw(st.sampled_from([0.0, 0.7, -3.25]))
    a = draw(real((norb, norb)))
    h1a = (a + a.T) / 2
    if spin_dependent:
        b = draw(real((norb, norb)))
        h1b = (b + b.T) / 2
    else:
        h1b = h1a.copy()
    kind = draw(st.sampled_from(list(chol_kinds)))
    c = draw(real((nchol, norb, norb))) * draw(st.sampled_from([1.0, 0.3, 0.3]))
    chol = (c + c.transpose(0, 2, 1)) / 2
    if kind == "diagonal":
        chol = np.stack([np.diag(np.diag(x)) for x in chol])
    elif kind == "zero":
        chol = np.zeros_like(chol)
    return {"h0": h0, "h1": np.stack([h1a, h1b]), "chol": chol, "chol_kind": kind}


def build_ham(norb, ham, trial, wave_data):
    import jax.numpy as jnp

    from ad_afqmc import hamiltonian as hmod

    H = hmod.hamiltonian(norb)
    chol = np.asarray(ham["chol"]).reshape(-1, norb * norb)
    hd = {"h0": float(ham["h0"]), "h1": jnp.asarray(np.asarray(ham["h1"])), "chol": jnp.asarray(chol), "ene0": 0.0}
    hd = H.build_measurement_intermediates(hd, trial, wave_data)
    return H, hd
