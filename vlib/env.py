"""Process environment for every check: which tree is under test, JAX configuration, guard variable.

Import this module before anything from ad_afqmc.  The tree under test is /repo's working tree
(VERIF_REPO overrides it; used only for sensitivity runs against scratch copies).
"""
import os
import sys

VERIF_DIR = os.path.dirname(os.path.dirname(os.path.abspath(__file__)))
REPO = os.environ.get("VERIF_REPO", "/repo")
GUARD = "ANKIT76_AD_AFQMC_VERIF"

_done = False


def setup():
    global _done
    if _done:
        return
    _done = True
    os.environ.setdefault(GUARD, "1")
    os.environ.setdefault("PYTHONHASHSEED", "0")
    os.environ.setdefault("JAX_PLATFORMS", "cpu")
    os.environ.setdefault(
        "XLA_FLAGS",
        "--xla_force_host_platform_device_count=1 --xla_cpu_multi_thread_eigen=false intra_op_parallelism_threads=1",
    )
    for v in ("OMP_NUM_THREADS", "OPENBLAS_NUM_THREADS", "MKL_NUM_THREADS"):
        os.environ.setdefault(v, "1")
    deps = os.path.join(VERIF_DIR, ".deps")
    if os.path.isdir(deps) and deps not in sys.path:
        sys.path.insert(0, deps)
    if REPO in sys.path:
        sys.path.remove(REPO)
    sys.path.insert(0, REPO)
    if VERIF_DIR not in sys.path:
        sys.path.insert(1, VERIF_DIR)
    import warnings

    warnings.filterwarnings("ignore", category=FutureWarning)
    warnings.filterwarnings("ignore", message=".*Casting complex values to real.*")
    from ad_afqmc import config

    config.afqmc_config["use_mpi"] = False
    config.afqmc_config["use_gpu"] = False
    import jax

    jax.config.update("jax_enable_x64", True)
    jax.config.update("jax_platform_name", "cpu")
    cache = os.environ.get("VERIF_JAX_CACHE")
    if cache:
        try:
            jax.config.update("jax_compilation_cache_dir", cache)
            jax.config.update("jax_persistent_cache_min_compile_time_secs", 0.5)
            jax.config.update("jax_persistent_cache_min_entry_size_bytes", 0)
        except Exception:
            pass
    import ad_afqmc

    got = os.path.dirname(os.path.dirname(os.path.abspath(ad_afqmc.__file__)))
    if os.path.realpath(got) != os.path.realpath(REPO):
        raise RuntimeError(f"ad_afqmc imported from {got}, expected {REPO}")
