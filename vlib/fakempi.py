"""An R-rank communicator with mpi4py buffer semantics whose interleaving is owned by the harness.

Each rank runs in a thread.  Every collective (Gather / Scatter / Barrier / bcast) is split into
"arrive" (deposit or register) and "complete"; a rank blocks after arriving until the scheduler
releases it.  The scheduler (main thread) waits until every live rank is parked, computes which parked
ranks *could* complete under MPI semantics (eager sends: a non-root Gather contribution completes at
once, the root's Gather only when all contributions are in; a non-root Scatter only after the root
posted; Barrier when all arrived), and releases exactly one of them, chosen by the next entry of a
generated choice list.  The schedule is therefore a generated, shrinkable input.  If no parked rank can
complete and not all ranks are finished, that is a deadlock.
"""
import threading

import numpy as np


class Deadlock(Exception):
    pass


class World:
    def __init__(self, size, choices):
        self.size = size
        self.choices = list(choices)
        self.ci = 0
        self.lock = threading.Condition()
        self.parked = {}  # rank -> (op_index, kind, root)
        self.release = {r: threading.Event() for r in range(size)}
        self.done = set()
        self.opcount = [0] * size
        self.store = {}  # op_index -> dict
        self.trace = []
        self.errors = {}

    def comm(self, rank):
        return Comm(self, rank)

    # called from rank threads -----------------------------------------------------------
    def _park(self, rank, kind, root):
        with self.lock:
            op = self.opcount[rank]
            self.parked[rank] = (op, kind, root)
            self.lock.notify_all()
        self.release[rank].wait()
        self.release[rank].clear()
        with self.lock:
            self.opcount[rank] += 1

    def _slot(self, rank, kind):
        op = self.opcount[rank]
        s = self.store.setdefault(op, {"kind": kind, "data": {}, "arrived": set(), "posted": False})
        if s["kind"] != kind:
            raise RuntimeError(f"rank {rank} calls {kind} but collective #{op} is {s['kind']}")
        return s

    # scheduler ---------------------------------------------------------------------------
    def _can_complete(self, rank):
        op, kind, root = self.parked[rank]
        s = self.store[op]
        if kind == "Gather":
            return rank != root or len(s["arrived"]) == self.size
        if kind in ("Scatter", "bcast", "Bcast"):
            return rank == root or s["posted"]
        if kind == "Barrier":
            return len(s["arrived"]) == self.size
        return True

    def run(self, targets, timeout=60.0):
        threads = []
        for r, fn in enumerate(targets):
            def wrap(r=r, fn=fn):
                try:
                    fn()
                except BaseException as e:  # noqa
                    self.errors[r] = e
                finally:
                    with self.lock:
                        self.done.add(r)
                        self.lock.notify_all()
            t = threading.Thread(target=wrap, daemon=True)
            threads.append(t)
            t.start()
        while True:
            with self.lock:
                ok = self.lock.wait_for(lambda: len(self.parked) + len(self.done) >= self.size, timeout=timeout)
                if not ok:
                    raise Deadlock(f"ranks neither parked nor finished within {timeout}s: parked={self.parked} done={self.done}")
                if len(self.done) == self.size:
                    break
                if self.errors:
                    # a rank died: release everyone so threads can exit, then report
                    for r in list(self.parked):
                        self.parked.pop(r)
                        self.release[r].set()
                    break
                ready = sorted(r for r in self.parked if self._can_complete(r))
                if not ready:
                    raise Deadlock(f"no parked rank can complete: parked={self.parked} done={sorted(self.done)} trace={self.trace}")
                c = self.choices[self.ci] if self.ci < len(self.choices) else 0
                self.ci += 1
                r = ready[c % len(ready)]
                op, kind, root = self.parked.pop(r)
                self.trace.append((r, kind, op))
                self.release[r].set()
        for t in threads:
            t.join(timeout)
        if self.errors:
            r = sorted(self.errors)[0]
            raise self.errors[r]


class Comm:
    def __init__(self, world, rank):
        self.w, self.rank, self.size = world, rank, world.size

    def Get_size(self):
        return self.size

    def Get_rank(self):
        return self.rank

    def Barrier(self):
        with self.w.lock:
            s = self.w._slot(self.rank, "Barrier")
            s["arrived"].add(self.rank)
        self.w._park(self.rank, "Barrier", 0)

    def Gather(self, sendbuf, recvbuf, root=0):
        send = np.array(sendbuf, copy=True)
        with self.w.lock:
            s = self.w._slot(self.rank, "Gather")
            s["data"][self.rank] = send
            s["arrived"].add(self.rank)
            op = self.w.opcount[self.rank]
        self.w._park(self.rank, "Gather", root)
        if self.rank == root:
            s = self.w.store[op]
            n = send.shape[0] if send.ndim else 1
            flat = np.concatenate([np.asarray(s["data"][r]).reshape((n,) + send.shape[1:]) for r in range(self.size)], axis=0)
            if recvbuf.shape != flat.shape:
                raise ValueError(f"Gather: receive buffer shape {recvbuf.shape} != {flat.shape}")
            if recvbuf.dtype != flat.dtype and not np.can_cast(flat.dtype, recvbuf.dtype, "same_kind"):
                raise TypeError(f"Gather: dtype {flat.dtype} -> {recvbuf.dtype}")
            recvbuf[...] = flat

    def Scatter(self, sendbuf, recvbuf, root=0):
        with self.w.lock:
            s = self.w._slot(self.rank, "Scatter")
            s["arrived"].add(self.rank)
            if self.rank == root:
                s["data"] = np.array(sendbuf, copy=True)
                s["posted"] = True
            op = self.w.opcount[self.rank]
        self.w._park(self.rank, "Scatter", root)
        s = self.w.store[op]
        data = s["data"]
        n = data.shape[0] // self.size
        chunk = data[self.rank * n : (self.rank + 1) * n]
        if recvbuf.shape != chunk.shape:
            raise ValueError(f"Scatter: receive buffer shape {recvbuf.shape} != {chunk.shape}")
        recvbuf[...] = chunk

    def bcast(self, obj, root=0):
        with self.w.lock:
            s = self.w._slot(self.rank, "bcast")
            s["arrived"].add(self.rank)
            if self.rank == root:
                s["data"] = obj
                s["posted"] = True
            op = self.w.opcount[self.rank]
        self.w._park(self.rank, "bcast", root)
        return self.w.store[op]["data"]

    def Bcast(self, buf, root=0):
        with self.w.lock:
            s = self.w._slot(self.rank, "Bcast")
            s["arrived"].add(self.rank)
            if self.rank == root:
                s["data"] = np.array(buf, copy=True)
                s["posted"] = True
            op = self.w.opcount[self.rank]
        self.w._park(self.rank, "Bcast", root)
        if self.rank != root:
            buf[...] = self.w.store[op]["data"]

    def Reduce(self, sendbuf, recvbuf, op=None, root=0):
        send = np.array(sendbuf[0] if isinstance(sendbuf, (list, tuple)) else sendbuf, copy=True)
        with self.w.lock:
            s = self.w._slot(self.rank, "Gather")
            s["data"][self.rank] = send
            s["arrived"].add(self.rank)
            opi = self.w.opcount[self.rank]
        self.w._park(self.rank, "Gather", root)
        if self.rank == root:
            tot = sum(self.w.store[opi]["data"][r] for r in range(self.size))
            tgt = recvbuf[0] if isinstance(recvbuf, (list, tuple)) else recvbuf
            np.copyto(tgt, tot)
