"""Tensor Gauss-Hermite (probabilists') quadrature: exact Gaussian averages of the auxiliary fields."""
import itertools

import numpy as np


def nodes_weights(nfields: int, n: int):
    x1, w1 = np.polynomial.hermite_e.hermegauss(n)
    w1 = w1 / np.sqrt(2 * np.pi)
    nodes = np.array(list(itertools.product(x1, repeat=nfields)), float).reshape(-1, nfields)
    wts = np.prod(np.array(list(itertools.product(w1, repeat=nfields)), float).reshape(-1, nfields), axis=1)
    return nodes, wts


def selftest():
    # E[exp(a.x)] = exp(|a|^2/2) for complex a; the integrands of C04/C05 are of this type with |a| ~ sqrt(dt) |L| <= 1.5
    for nf, n in ((1, 12), (2, 12), (3, 10)):
        x, w = nodes_weights(nf, n)
        assert abs(w.sum() - 1) < 1e-13
        for amp in (0.3, 0.9, 1.5):
            a = amp * (np.arange(1, nf + 1) / nf) * (1 + 0.5j)
            got = np.sum(w * np.exp(x @ a))
            want = np.exp(np.sum(a * a) / 2)
            assert abs(got - want) < (1e-9 if amp < 1.0 else 1e-6) * abs(want), (nf, n, amp, got, want)
    return True
