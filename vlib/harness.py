"""Shared harness: seeding, sharding, counters, bucketing, known findings, evidence, replay I/O.

A property module (vlib/checks/cXX.py) exposes

    PROPERTY = "C07"
    RULE     = "<how cases are generated and what makes one non-trivial>"
    ASSUMPTIONS = [...]
    SUBCHECKS = [SubCheck(...), ...]

Each SubCheck is either Hypothesis-driven (strategy + body) or an enumeration (enum function).
The body receives (ctx, case) and reports through ctx:

    ctx.case(case, nontrivial=bool, classes=[...])   count one evaluated case
    ctx.count(label)                                  free-form class counter
    ctx.fail(bucket, case, message)                   property violated on this case
    ctx.inconclusive(label)                           oracle could not decide (never a violation)

ctx.fail() consults known_findings.json: a listed bucket is counted as excluded and the search
continues; an unlisted one raises Violation, which Hypothesis shrinks; the minimal case is written
to replays/ and reported as `VIOLATION property=<id> replay=<path>`.
"""
from __future__ import annotations

import dataclasses
import hashlib
import json
import multiprocessing as mp
import os
import sys
import time
import traceback
from typing import Any, Callable, Optional

import numpy as np

from . import env

VERIF_DIR = env.VERIF_DIR
KNOWN_FILE = os.path.join(VERIF_DIR, "known_findings.json")


# --------------------------------------------------------------------------------------------
# JSON encoding of cases (numpy arrays, complex numbers, tuples) so that replay files are plain JSON
# --------------------------------------------------------------------------------------------
def encode(x: Any) -> Any:
    if isinstance(x, dict):
        return {str(k): encode(v) for k, v in x.items()}
    if isinstance(x, (list, tuple)):
        return [encode(v) for v in x]
    if isinstance(x, (bool, np.bool_)):
        return bool(x)
    if isinstance(x, (int, np.integer)):
        return int(x)
    if isinstance(x, (float, np.floating)):
        x = float(x)
        if x != x or x in (float("inf"), float("-inf")):
            return {"__float__": repr(x)}
        return x
    if isinstance(x, (complex, np.complexfloating)):
        return {"__complex__": [encode(float(x.real)), encode(float(x.imag))]}
    if x is None or isinstance(x, str):
        return x
    if hasattr(x, "__array__") or isinstance(x, np.ndarray):
        a = np.asarray(x)
        if np.iscomplexobj(a):
            return {
                "__nd__": "c",
                "shape": list(a.shape),
                "re": encode(a.real.reshape(-1).tolist()),
                "im": encode(a.imag.reshape(-1).tolist()),
            }
        if a.dtype == bool:
            return {"__nd__": "b", "shape": list(a.shape), "v": a.reshape(-1).tolist()}
        if np.issubdtype(a.dtype, np.integer):
            return {"__nd__": "i", "shape": list(a.shape), "v": a.reshape(-1).tolist()}
        return {"__nd__": "f", "shape": list(a.shape), "v": encode(a.astype(float).reshape(-1).tolist())}
    if dataclasses.is_dataclass(x):
        return encode(dataclasses.asdict(x))
    return repr(x)


def decode(x: Any) -> Any:
    if isinstance(x, list):
        return [decode(v) for v in x]
    if isinstance(x, dict):
        if "__float__" in x:
            return float(x["__float__"])
        if "__complex__" in x:
            r, i = x["__complex__"]
            return complex(decode(r), decode(i))
        if "__nd__" in x:
            k = x["__nd__"]
            shape = tuple(x["shape"])
            if k == "c":
                return (np.array(decode(x["re"]), float) + 1j * np.array(decode(x["im"]), float)).reshape(shape)
            if k == "b":
                return np.array(x["v"], bool).reshape(shape)
            if k == "i":
                return np.array(x["v"], np.int64).reshape(shape)
            return np.array(decode(x["v"]), float).reshape(shape)
        return {k: decode(v) for k, v in x.items()}
    return x


def _round_sig(v, sig=6):
    if isinstance(v, float) and v == v and abs(v) not in (0.0, float("inf")):
        return float(f"{v:.{sig}g}")
    return v


def summarize(x: Any, max_elems: int = 24) -> Any:
    """Compact, human-readable rendering of a case for evidence samples."""
    if isinstance(x, dict):
        return {str(k): summarize(v, max_elems) for k, v in x.items()}
    if isinstance(x, (list, tuple)):
        if len(x) > max_elems:
            return [summarize(v, max_elems) for v in x[:max_elems]] + [f"... ({len(x)} items)"]
        return [summarize(v, max_elems) for v in x]
    if hasattr(x, "__array__") and not isinstance(x, (float, int, complex, np.generic)):
        a = np.asarray(x)
        flat = a.reshape(-1)
        if np.iscomplexobj(a):
            vals = [f"{_round_sig(float(z.real), 4)}{'+' if z.imag >= 0 else '-'}{_round_sig(abs(float(z.imag)), 4)}j" for z in flat[:max_elems]]
        else:
            vals = [_round_sig(float(z), 5) if a.dtype.kind == "f" else (bool(z) if a.dtype == bool else int(z)) for z in flat[:max_elems]]
            vals = [v if (not isinstance(v, float) or v == v and abs(v) != float("inf")) else repr(v) for v in vals]
        out = {"shape": list(a.shape), "values": vals}
        if flat.size > max_elems:
            out["truncated"] = int(flat.size)
        return out
    if isinstance(x, (complex, np.complexfloating)):
        return f"{_round_sig(float(x.real))}{'+' if x.imag >= 0 else '-'}{_round_sig(abs(float(x.imag)))}j"
    if isinstance(x, (float, np.floating)):
        v = float(x)
        return _round_sig(v) if v == v and abs(v) != float("inf") else repr(v)
    if isinstance(x, (bool, np.bool_)):
        return bool(x)
    if isinstance(x, (int, np.integer)):
        return int(x)
    if x is None or isinstance(x, str):
        return x
    return repr(x)


def case_hash(x: Any) -> str:
    return hashlib.sha1(json.dumps(encode(x), sort_keys=True).encode()).hexdigest()[:16]


# --------------------------------------------------------------------------------------------
class Violation(Exception):
    def __init__(self, bucket: str, case: Any, message: str):
        super().__init__(f"[{bucket}] {message}")
        self.bucket = bucket
        self.case = case
        self.message = message


class HarnessError(Exception):
    pass


MAP_LIMIT = int(os.environ.get("VERIF_MAP_LIMIT", "30000"))


def relieve_mappings(ctx=None):
    """Public name: long single cases (state-machine histories, driver runs) call it between steps."""
    _relieve_mappings(ctx)


def _relieve_mappings(ctx=None):
    """Every XLA executable keeps several memory mappings; a process that has compiled a few thousand of them reaches the kernel's
    vm.max_map_count (65530) and the next compilation fails with "LLVM compilation error: Cannot allocate memory" and kills the process.
    Long shards therefore drop jax's compilation caches when the mapping count passes MAP_LIMIT (recompiling is only a cost)."""
    try:
        with open("/proc/self/maps") as f:
            n = sum(1 for _ in f)
    except OSError:
        return
    if n > MAP_LIMIT:
        import gc

        import jax

        jax.clear_caches()
        gc.collect()
        if ctx is not None:
            ctx.count("harness:jax-caches-cleared")


def load_known() -> dict:
    if not os.path.exists(KNOWN_FILE):
        return {"findings": [], "fixed": []}
    with open(KNOWN_FILE) as f:
        return json.load(f)


class Ctx:
    def __init__(self, pid: str, sub: str, tier: str, seed: int, shard: int = 0, nshards: int = 1):
        self.pid, self.sub, self.tier, self.seed, self.shard, self.nshards = pid, sub, tier, seed, shard, nshards
        self.known = {f["bucket"]: f for f in load_known().get("findings", []) if f.get("property") == pid}
        self.session_excluded: set[str] = set()
        self.evaluations = 0
        self.nontrivial_hashes: set[str] = set()
        self.counters: dict[str, int] = {}
        self.samples: list = []
        self.excluded_known: dict[str, dict] = {}
        self.n_inconclusive = 0
        self.max_err: dict[str, float] = {}
        self.max_samples = 3
        self.found: list = []  # violations collected by enumerations (first case per bucket)

    # --- counting -------------------------------------------------------------------------
    def count(self, label: str, n: int = 1):
        self.counters[label] = self.counters.get(label, 0) + n

    def case(self, case: Any, nontrivial: bool = True, classes=(), summary: Any = None):
        self.evaluations += 1
        _relieve_mappings(self)
        for c in classes:
            self.count(c)
        if nontrivial:
            h = self.sub + ":" + case_hash(case)
            if h not in self.nontrivial_hashes:
                self.nontrivial_hashes.add(h)
                if len(self.samples) < self.max_samples:
                    self.samples.append({"subcheck": self.sub, "case": summarize(case if summary is None else summary)})
        else:
            self.count("trivial")

    def inconclusive(self, label: str):
        self.n_inconclusive += 1
        self.count("inconclusive:" + label)

    def err(self, label: str, value: float):
        """Track the worst normalised error seen per quantity (goes into the evidence)."""
        value = float(value)
        if value != value:
            value = float("inf")
        if value > self.max_err.get(label, -1.0):
            self.max_err[label] = value

    # --- failing --------------------------------------------------------------------------
    def fail(self, bucket: str, case: Any, message: str):
        if bucket in self.known:
            e = self.excluded_known.setdefault(bucket, {"count": 0, "example": None})
            e["count"] += 1
            if e["example"] is None:
                e["example"] = {"case": summarize(case), "message": message[:500]}
            return
        if bucket in self.session_excluded:
            self.count("excluded_this_run:" + bucket)
            return
        raise Violation(bucket, case, message)

    def check_close(self, bucket: str, case: Any, label: str, got, want, tol: float, scale: float = 1.0):
        """|got-want| <= tol*scale elementwise-max; NaN counts as failure."""
        got = np.asarray(got)
        want = np.asarray(want)
        if got.shape != want.shape:
            self.fail(bucket, case, f"{label}: shape {got.shape} != expected {want.shape}")
            return False
        d = np.abs(got - want)
        e = float(np.max(d)) if d.size else 0.0
        if not np.all(np.isfinite(got)):
            e = float("inf")
        scale = max(float(scale), 1e-300)
        self.err(label, e / scale)
        if not (e <= tol * scale):
            self.fail(bucket, case, f"{label}: |got-want|={e:.3e} > tol {tol:.1e} x scale {scale:.3e}; got={summarize(got, 8)} want={summarize(want, 8)}")
            return False
        return True

    def run_case(self, body, case):
        """For enumerations: evaluate one case, keep the first violation per bucket, continue."""
        try:
            body(self, case)
        except Violation as v:
            self.found.append(v)
            self.session_excluded.add(v.bucket)

    def result(self) -> dict:
        return {
            "sub": self.sub,
            "shard": self.shard,
            "evaluations": self.evaluations,
            "hashes": sorted(self.nontrivial_hashes),
            "counters": self.counters,
            "samples": self.samples,
            "excluded_known": self.excluded_known,
            "inconclusive": self.n_inconclusive,
            "max_err": self.max_err,
        }


# --------------------------------------------------------------------------------------------
@dataclasses.dataclass
class SubCheck:
    name: str
    body: Optional[Callable] = None  # body(ctx, case) for Hypothesis-driven sub-checks and for replay
    strategy: Optional[Callable] = None  # strategy(tier) -> hypothesis strategy producing `case`
    examples: dict = dataclasses.field(default_factory=lambda: {"quick": 100, "thorough": 1000})
    shards: dict = dataclasses.field(default_factory=lambda: {"quick": 1, "thorough": 4})
    enum: Optional[Callable] = None  # enum(ctx, tier, shard, nshards): enumeration / custom driver
    machine: Optional[Callable] = None  # machine(ctx, tier) -> RuleBasedStateMachine subclass
    steps: dict = dataclasses.field(default_factory=lambda: {"quick": 20, "thorough": 40})
    shrink: bool = True
    doc: str = ""


def _settings(max_examples: int, shrink: bool, steps: Optional[int] = None):
    from hypothesis import HealthCheck, Phase, settings

    phases = [Phase.explicit, Phase.generate] + ([Phase.shrink] if shrink else [])
    kw = dict(
        max_examples=max_examples,
        deadline=None,
        database=None,
        derandomize=False,
        report_multiple_bugs=False,
        phases=phases,
        suppress_health_check=[HealthCheck.too_slow, HealthCheck.data_too_large, HealthCheck.large_base_example, HealthCheck.filter_too_much],
        print_blob=False,
    )
    if steps is not None:
        kw["stateful_step_count"] = steps
    return settings(**kw)


def derive_seed(seed: int, name: str, shard: int) -> int:
    h = hashlib.sha1(f"{seed}:{name}:{shard}".encode()).digest()
    return int.from_bytes(h[:6], "big")


MAX_ROUNDS = 4  # after a violation is shrunk its bucket is excluded and the search is repeated


def run_subcheck(pid: str, sc: SubCheck, tier: str, seed: int, shard: int, nshards: int) -> dict:
    import hypothesis
    from hypothesis import given
    from hypothesis import seed as hseed

    ctx = Ctx(pid, sc.name, tier, seed, shard, nshards)
    violations = []
    t0 = time.time()
    dseed = derive_seed(seed, sc.name, shard)
    n = max(1, int(sc.examples.get(tier, 100)) // 1)
    rejected = [0]
    for _ in range(MAX_ROUNDS):
        try:
            if sc.enum is not None:
                sc.enum(ctx, tier, shard, nshards)
                for v in ctx.found:
                    violations.append({"bucket": v.bucket, "sub": sc.name, "case": encode(v.case), "message": v.message})
            elif sc.machine is not None:
                from hypothesis.stateful import run_state_machine_as_test

                M = sc.machine(ctx, tier)
                run_state_machine_as_test(hseed(dseed)(M), settings=_settings(n, sc.shrink, sc.steps.get(tier, 20)))
            else:
                import inspect

                if len(inspect.signature(sc.strategy).parameters) >= 3:
                    strat = sc.strategy(tier, shard, nshards)
                else:
                    strat = sc.strategy(tier)

                first = [True]

                @hseed(dseed)
                @_settings(n, sc.shrink)
                @given(strat)
                def _t(case):
                    if first[0] and n <= 3:
                        # Hypothesis always offers its simplest example first (all-zero matrices, first table entries). Where a shard has
                        # only one to three examples that would be the whole budget: skip it there so the budget goes to generated inputs.
                        first[0] = False
                        ctx.count("harness:simplest-example-skipped")
                        hypothesis.reject()
                    first[0] = False
                    try:
                        sc.body(ctx, case)
                    except hypothesis.errors.UnsatisfiedAssumption:
                        rejected[0] += 1
                        raise

                _t()
            break
        except Violation as v:
            violations.append({"bucket": v.bucket, "sub": sc.name, "case": encode(v.case), "message": v.message})
            ctx.session_excluded.add(v.bucket)
            if sc.enum is not None:
                break
            continue
    res = ctx.result()
    res["violations"] = violations
    res["rejected_by_precondition"] = rejected[0]
    res["wall_s"] = time.time() - t0
    return res


def _worker(args):
    pid, modname, subname, tier, seed, shard, nshards = args
    try:
        env.setup()
        import importlib

        mod = importlib.import_module(modname)
        sc = next(s for s in mod.SUBCHECKS if s.name == subname)
        return run_subcheck(pid, sc, tier, seed, shard, nshards)
    except Exception:
        return {"sub": subname, "shard": shard, "error": traceback.format_exc()}


def _run_tasks(tasks, procs, tier):
    """Run tasks in worker processes. A worker that dies (segfault, out of memory, abort inside XLA) must not hang the check:
    concurrent.futures reports it as BrokenProcessPool; the tasks that were caught in the broken pool are re-run one by one in fresh
    single-worker pools, so that collateral tasks still finish and the one that really crashes is reported as a harness error.
    A global watchdog bounds the whole thing; what has not finished by then is a harness error (inconclusive, never a violation)."""
    import concurrent.futures as cf
    from concurrent.futures.process import BrokenProcessPool

    budget = float(os.environ.get("VERIF_WATCHDOG_S", "2400" if tier == "quick" else "21600"))
    deadline = time.time() + budget
    mpctx = mp.get_context("spawn")
    results = {}
    retry = []
    ex = cf.ProcessPoolExecutor(max_workers=procs, mp_context=mpctx, max_tasks_per_child=1)
    try:
        futs = {ex.submit(_worker, t): i for i, t in enumerate(tasks)}
        for f, i in futs.items():
            t = tasks[i]
            try:
                results[i] = f.result(timeout=max(1.0, deadline - time.time()))
            except BrokenProcessPool:
                retry.append(i)
            except cf.TimeoutError:
                results[i] = {"sub": t[2], "shard": t[5], "error": f"watchdog: sub-check did not finish within {budget:.0f} s (inconclusive, not a violation)"}
            except Exception:
                results[i] = {"sub": t[2], "shard": t[5], "error": traceback.format_exc()}
    finally:
        ex.shutdown(wait=False, cancel_futures=True)
    for i in retry:
        t = tasks[i]
        ex1 = cf.ProcessPoolExecutor(max_workers=1, mp_context=mpctx)
        try:
            results[i] = ex1.submit(_worker, t).result(timeout=max(1.0, deadline - time.time()))
        except BrokenProcessPool:
            results[i] = {"sub": t[2], "shard": t[5], "error": "worker process died while running this sub-check (killed / out of memory / abort in native code); inconclusive, not a violation"}
        except cf.TimeoutError:
            results[i] = {"sub": t[2], "shard": t[5], "error": f"watchdog: sub-check did not finish within {budget:.0f} s (inconclusive, not a violation)"}
        except Exception:
            results[i] = {"sub": t[2], "shard": t[5], "error": traceback.format_exc()}
        finally:
            ex1.shutdown(wait=False, cancel_futures=True)
    return [results[i] for i in range(len(tasks))]


def run_property(modname: str, tier: str, seed: int, only: Optional[str] = None, procs: int = 16) -> int:
    import importlib

    env.setup()
    t0 = time.time()
    mod = importlib.import_module(modname)
    pid = mod.PROPERTY
    if hasattr(mod, "selftest"):
        try:
            mod.selftest()
        except Exception:
            traceback.print_exc()
            print(f"HARNESS-ERROR property={pid} oracle self-test failed")
            return 2
    reg_results = run_regressions(mod)
    tasks = []
    for sc in mod.SUBCHECKS:
        if only and sc.name != only:
            continue
        ns = int(sc.shards.get(tier, 1))
        for sh in range(ns):
            tasks.append((pid, modname, sc.name, tier, seed, sh, ns))
    procs = max(1, min(procs, len(tasks), int(os.environ.get("VERIF_PROCS", "16"))))
    if procs == 1:
        results = [_worker(t) for t in tasks]
    else:
        results = _run_tasks(tasks, procs, tier)
    return finish(mod, tier, seed, reg_results + results, time.time() - t0)


def run_regressions(mod) -> list:
    """Seconds-long replay tier: every committed regressions/<pid>-*.json case is re-evaluated first."""
    import glob

    pid = mod.PROPERTY
    out = []
    for path in sorted(glob.glob(os.path.join(VERIF_DIR, "regressions", f"{pid}-*.json"))):
        with open(path) as f:
            rec = json.load(f)
        sc = next((s for s in mod.SUBCHECKS if s.name == rec["subcheck"]), None)
        if sc is None or sc.body is None:
            out.append({"sub": rec.get("subcheck", "?"), "shard": 0, "error": f"regression file {path}: unknown subcheck"})
            continue
        ctx = Ctx(pid, sc.name, "quick", 0)
        vio = []
        try:
            sc.body(ctx, decode(rec["case"]))
        except __import__("hypothesis").errors.UnsatisfiedAssumption:
            pass
        except Violation as v:
            vio.append({"bucket": v.bucket, "sub": sc.name, "case": encode(v.case), "message": "[regression " + os.path.basename(path) + "] " + v.message})
        except Exception:
            out.append({"sub": sc.name, "shard": 0, "error": f"regression file {path}:\n" + traceback.format_exc()})
            continue
        r = ctx.result()
        r["shard"] = -1
        r["samples"] = []
        r["counters"] = {"regression-corpus-cases": 1}
        r["violations"] = vio
        r["wall_s"] = 0.0
        out.append(r)
    return out


def finish(mod, tier: str, seed: int, results: list, wall: float) -> int:
    pid = mod.PROPERTY
    errors = [r for r in results if "error" in r]
    good = [r for r in results if "error" not in r]
    hashes = set()
    counters: dict[str, int] = {}
    samples = []
    excluded: dict[str, dict] = {}
    max_err: dict[str, float] = {}
    per_sub: dict[str, dict] = {}
    violations = []
    evaluations = inconclusive = rejected = 0
    for r in good:
        evaluations += r["evaluations"]
        inconclusive += r["inconclusive"]
        rejected += r.get("rejected_by_precondition", 0)
        hashes.update(r["hashes"])
        for k, v in r["counters"].items():
            counters[k] = counters.get(k, 0) + v
        for k, v in r["max_err"].items():
            max_err[k] = max(max_err.get(k, 0.0), v)
        for k, v in r["excluded_known"].items():
            e = excluded.setdefault(k, {"count": 0, "example": v["example"]})
            e["count"] += v["count"]
        if r["shard"] == 0:
            samples.extend(r["samples"][:2])
        ps = per_sub.setdefault(r["sub"], {"evaluations": 0, "distinct_nontrivial": 0, "wall_s": 0.0})
        ps["evaluations"] += r["evaluations"]
        ps["distinct_nontrivial"] += len(r["hashes"])
        ps["wall_s"] = round(ps["wall_s"] + r["wall_s"], 2)
        violations.extend(r["violations"])
    # one replay file per distinct bucket
    rdir = os.environ.get("VERIF_REPLAY_DIR") or os.path.join(VERIF_DIR, "replays")
    edir = os.environ.get("VERIF_EVIDENCE_DIR") or os.path.join(VERIF_DIR, "evidence")
    os.makedirs(rdir, exist_ok=True)
    seen = set()
    vio_out = []
    for v in violations:
        if v["bucket"] in seen:
            continue
        seen.add(v["bucket"])
        h = hashlib.sha1(json.dumps(v["case"], sort_keys=True).encode()).hexdigest()[:10]
        safe = "".join(c if c.isalnum() or c in "-_." else "_" for c in v["bucket"])[:80]
        path = os.path.join(rdir, f"{pid}-{safe}-{h}.json")
        path = os.path.relpath(path, VERIF_DIR) if path.startswith(VERIF_DIR + os.sep) else path
        with open(os.path.join(VERIF_DIR, path), "w") as f:
            json.dump({"property": pid, "subcheck": v["sub"], "bucket": v["bucket"], "message": v["message"], "case": v["case"]}, f, indent=1)
        vio_out.append((v, path))
    known = [f for f in load_known().get("findings", []) if f.get("property") == pid]
    ev = {
        "property_id": pid,
        "tier": tier,
        "seed": int(seed),
        "level": getattr(mod, "LEVEL", "exploration"),
        "coverage": {
            "evaluations": int(evaluations),
            "distinct_nontrivial": int(len(hashes)),
            "rule": mod.RULE,
            "samples": samples[:12] if samples else [],
            "exhaustive": bool(getattr(mod, "EXHAUSTIVE", False)),
            "per_subcheck": per_sub,
            "classes": dict(sorted(counters.items())),
            "worst_normalised_error": {k: float(f"{v:.3e}") if v == v and v != float("inf") else repr(v) for k, v in sorted(max_err.items())},
            "excluded_known": {k: v for k, v in excluded.items()},
            "inconclusive": int(inconclusive),
            "rejected_by_precondition": int(rejected),
            "violating_buckets": [v["bucket"] for v, _ in vio_out],
            "harness_errors": len(errors),
        },
        "assumptions": list(getattr(mod, "ASSUMPTIONS", [])),
        "wall_s": round(wall, 2),
        "violations": len(vio_out),
    }
    if hasattr(mod, "EXPLANATION"):
        ev["coverage"]["explanation"] = mod.EXPLANATION
    os.makedirs(edir, exist_ok=True)
    with open(os.path.join(edir, f"{pid}.json"), "w") as f:
        json.dump(ev, f, indent=1, sort_keys=False)
    for k in known:
        seen_n = excluded.get(k["bucket"], {}).get("count", 0)
        print(f"KNOWN-FINDING: property={pid} {k['bucket']}: {k['what']} (reproduced {seen_n}x in this run)")
    print(f"[{pid}] tier={tier} seed={seed} evaluations={evaluations} distinct_nontrivial={len(hashes)} inconclusive={inconclusive} rejected={rejected} wall={wall:.1f}s")
    for name, ps in per_sub.items():
        print(f"   - {name}: {ps['evaluations']} cases, {ps['distinct_nontrivial']} non-trivial, {ps['wall_s']}s")
    if errors:
        for e in errors:
            print(f"HARNESS-ERROR property={pid} subcheck={e['sub']} shard={e['shard']}\n{e['error']}")
    for v, path in vio_out:
        print(f"   violation bucket={v['bucket']} subcheck={v['sub']}: {v['message'][:600]}")
        print(f"VIOLATION property={pid} replay={path}")
    sys.stdout.flush()
    if vio_out:
        return 1
    if errors:
        return 2
    if rejected > 0.5 * max(1, evaluations + rejected) and evaluations + rejected > 20:
        print(f"HARNESS-ERROR property={pid} too many cases rejected by preconditions ({rejected})")
        return 2
    return 0


def replay(modname: str, path: str) -> int:
    import importlib

    env.setup()
    mod = importlib.import_module(modname)
    pid = mod.PROPERTY
    with open(path) as f:
        rec = json.load(f)
    sc = next((s for s in mod.SUBCHECKS if s.name == rec["subcheck"]), None)
    if sc is None or sc.body is None:
        print(f"HARNESS-ERROR property={pid} no replayable subcheck {rec.get('subcheck')}")
        return 2
    ctx = Ctx(pid, sc.name, "quick", 0)
    ctx.known = {}  # a replay evaluates the case itself, listed or not
    import hypothesis.errors

    try:
        sc.body(ctx, decode(rec["case"]))
    except hypothesis.errors.UnsatisfiedAssumption:
        print(f"[{pid}] replay {path}: case is rejected by a precondition of the check on this tree (not evaluated)")
        return 0
    except Violation as v:
        print(f"   replayed violation bucket={v.bucket}: {v.message[:600]}")
        print(f"VIOLATION property={pid} replay={path}")
        return 1
    print(f"[{pid}] replay {path}: property holds on this case")
    return 0
