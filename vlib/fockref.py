"""Exact second-quantised (Fock-space) reference model, written from scratch in numpy/scipy.

Spin orbital P = p (up) or norb + p (down); basis state |s> with bit P of s set for every occupied
spin orbital, defined as  a+_{P1} a+_{P2} ... |0>  with P1 < P2 < ...  (up orbitals first, ascending).
Nothing here shares a formula with the library: states are built by applying creation operators,
expectation values are vdot(psi, Op phi).
"""
import functools
import itertools

import numpy as np
import scipy.linalg
import scipy.sparse as sp


class Fock:
    def __init__(self, norb: int):
        self.norb = norb
        self.n = 2 * norb
        self.dim = 1 << self.n
        self.cre = [self._cre(P) for P in range(self.n)]
        self.ann = [c.T.tocsr() for c in self.cre]
        self.vac = np.zeros(self.dim, complex)
        self.vac[0] = 1.0
        self._E = {}
        self.popcount = np.array([bin(s).count("1") for s in range(self.dim)])
        mask_up = (1 << norb) - 1
        self.nup = np.array([bin(s & mask_up).count("1") for s in range(self.dim)])
        self.ndn = self.popcount - self.nup

    def _cre(self, P):
        rows, cols, vals = [], [], []
        for s in range(self.dim):
            if not (s >> P) & 1:
                sign = (-1) ** bin(s & ((1 << P) - 1)).count("1")
                rows.append(s | (1 << P))
                cols.append(s)
                vals.append(sign)
        return sp.csr_matrix((vals, (rows, cols)), shape=(self.dim, self.dim), dtype=complex)

    # ---- operators ------------------------------------------------------------------------
    def E(self, P, Q):
        """a+_P a_Q for spin orbitals P, Q."""
        k = (P, Q)
        if k not in self._E:
            self._E[k] = (self.cre[P] @ self.ann[Q]).tocsr()
        return self._E[k]

    def orb_cre(self, coeffs):
        """sum_P coeffs[P] a+_P."""
        out = sp.csr_matrix((self.dim, self.dim), dtype=complex)
        for P, c in enumerate(coeffs):
            if c != 0:
                out = out + complex(c) * self.cre[P]
        return out

    def orb_ann(self, coeffs):
        """sum_P conj(coeffs[P]) a_P  (adjoint of orb_cre(coeffs))."""
        out = sp.csr_matrix((self.dim, self.dim), dtype=complex)
        for P, c in enumerate(coeffs):
            if c != 0:
                out = out + np.conj(complex(c)) * self.ann[P]
        return out

    def one_body_so(self, h):
        """sum_PQ h[P,Q] a+_P a_Q over spin orbitals (2norb x 2norb)."""
        out = sp.csr_matrix((self.dim, self.dim), dtype=complex)
        for P in range(self.n):
            for Q in range(self.n):
                if h[P, Q] != 0:
                    out = out + complex(h[P, Q]) * self.E(P, Q)
        return out

    def one_body(self, hup, hdn):
        n = self.norb
        h = np.zeros((2 * n, 2 * n), complex)
        h[:n, :n] = hup
        h[n:, n:] = hdn
        return self.one_body_so(h)

    def hamiltonian(self, h0, h1, chol):
        """H = h0 + sum_s h1[s] a+a + 1/2 sum_g [ L_g^2 - one_body(L_g L_g) ]   (normal-ordered two-body term).

        h1: (2, norb, norb); chol: (nchol, norb, norb) symmetric."""
        chol = np.asarray(chol).reshape(-1, self.norb, self.norb)
        H = complex(h0) * sp.identity(self.dim, dtype=complex, format="csr") + self.one_body(h1[0], h1[1])
        for L in chol:
            Lop = self.one_body(L, L)
            H = H + 0.5 * (Lop @ Lop) - 0.5 * self.one_body(L @ L, L @ L)
        return H.tocsr()

    def hamiltonian_explicit(self, h0, h1, chol):
        """Same operator from the four-index a+ a+ a a sum (self-test only)."""
        norb = self.norb
        chol = np.asarray(chol).reshape(-1, norb, norb)
        H = complex(h0) * sp.identity(self.dim, dtype=complex, format="csr") + self.one_body(h1[0], h1[1])
        eri = np.einsum("gpq,grs->pqrs", chol, chol)
        for s in range(2):
            for t in range(2):
                for p, q, r, u in itertools.product(range(norb), repeat=4):
                    if eri[p, q, r, u] != 0:
                        H = H + 0.5 * eri[p, q, r, u] * (
                            self.cre[s * norb + p] @ self.cre[t * norb + r] @ self.ann[t * norb + u] @ self.ann[s * norb + q]
                        )
        return H.tocsr()

    # ---- states ----------------------------------------------------------------------------
    def product_state(self, C):
        """C: (2norb, N) spin-orbital coefficients; returns c+_1 c+_2 ... c+_N |0>."""
        C = np.asarray(C)
        v = self.vac.copy()
        for k in reversed(range(C.shape[1])):
            v = self.orb_cre(C[:, k]) @ v
        return v

    def slater_ops(self, up, dn):
        """(prod_k c+_up,k)(prod_l c+_dn,l)|0> by applying operators."""
        norb = self.norb
        up = np.asarray(up).reshape(norb, -1)
        dn = np.asarray(dn).reshape(norb, -1)
        C = np.zeros((self.n, up.shape[1] + dn.shape[1]), complex)
        C[:norb, : up.shape[1]] = up
        C[norb:, up.shape[1] :] = dn
        return self.product_state(C)

    @functools.lru_cache(maxsize=None)
    def _strings(self, k):
        """All k-subsets of range(norb) with the bit pattern of each."""
        subs = list(itertools.combinations(range(self.norb), k))
        bits = np.array([sum(1 << p for p in s) for s in subs], dtype=np.int64)
        return subs, bits

    def slater(self, up, dn):
        """Same state from minors: amplitude on |S_a S_b> = det(up[S_a]) det(dn[S_b])."""
        norb = self.norb
        up = np.asarray(up, complex).reshape(norb, -1)
        dn = np.asarray(dn, complex).reshape(norb, -1)
        na, nb = up.shape[1], dn.shape[1]
        sa, ba = self._strings(na)
        sb, bb = self._strings(nb)
        da = np.array([np.linalg.det(up[list(s), :]) if na else 1.0 for s in sa], complex)
        db = np.array([np.linalg.det(dn[list(s), :]) if nb else 1.0 for s in sb], complex)
        v = np.zeros(self.dim, complex)
        idx = ba[:, None] + (bb[None, :] << norb)
        v[idx.ravel()] = np.outer(da, db).ravel()
        return v

    def det_state(self, occ_a, occ_b):
        """|D> = (alpha string ascending)(beta string ascending)|0> from 0/1 occupation vectors."""
        s = 0
        for p, o in enumerate(occ_a):
            if o:
                s |= 1 << p
        for p, o in enumerate(occ_b):
            if o:
                s |= 1 << (self.norb + p)
        v = np.zeros(self.dim, complex)
        v[s] = 1.0
        return v

    # ---- sectors / exact propagation --------------------------------------------------------
    def sector(self, nup, ndn):
        return np.nonzero((self.nup == nup) & (self.ndn == ndn))[0]

    def sector_n(self, nel):
        return np.nonzero(self.popcount == nel)[0]

    def expm_apply(self, A, v, idx):
        """exp(A) v restricted to the invariant sector idx (dense)."""
        Ad = A[idx][:, idx].toarray()
        out = np.zeros_like(v)
        out[idx] = scipy.linalg.expm(Ad) @ v[idx]
        return out

    def rdm1(self, psi):
        """<psi|a+_P a_Q|psi>/<psi|psi> over spin orbitals."""
        nrm = np.vdot(psi, psi)
        out = np.zeros((self.n, self.n), complex)
        for P in range(self.n):
            for Q in range(self.n):
                out[P, Q] = np.vdot(psi, self.E(P, Q) @ psi) / nrm
        return out


_CACHE = {}


def fock(norb) -> Fock:
    if norb not in _CACHE:
        _CACHE[norb] = Fock(norb)
    return _CACHE[norb]


def selftest():
    """Oracle self-test: operator algebra, two forms of H, minors vs operators."""
    rng = np.random.default_rng(12345)
    for norb in (2, 3):
        F = fock(norb)
        # canonical anticommutation relations
        for P in range(F.n):
            for Q in range(F.n):
                ac = (F.ann[P] @ F.cre[Q] + F.cre[Q] @ F.ann[P]).toarray()
                assert np.allclose(ac, np.eye(F.dim) * (P == Q)), "CAR violated"
                ac2 = (F.cre[P] @ F.cre[Q] + F.cre[Q] @ F.cre[P]).toarray()
                assert np.allclose(ac2, 0), "CAR violated"
        h1 = rng.normal(size=(2, norb, norb))
        h1 = (h1 + h1.transpose(0, 2, 1)) / 2
        chol = rng.normal(size=(2, norb, norb))
        chol = (chol + chol.transpose(0, 2, 1)) / 2
        H1 = F.hamiltonian(0.3, h1, chol)
        H2 = F.hamiltonian_explicit(0.3, h1, chol)
        assert abs(H1 - H2).max() < 1e-12, "normal-ordered and explicit Hamiltonians differ"
        assert abs(H1 - H1.getH()).max() < 1e-12
        for na, nb in ((1, 1), (2, 1), (2, 0), (norb, 1)):
            if na > norb:
                continue
            up = rng.normal(size=(norb, na)) + 1j * rng.normal(size=(norb, na))
            dn = rng.normal(size=(norb, nb)) + 1j * rng.normal(size=(norb, nb))
            a, b = F.slater_ops(up, dn), F.slater(up, dn)
            assert np.allclose(a, b, atol=1e-12), "minor-based Slater state differs from operator-built one"
            assert np.all(np.abs(a[np.setdiff1d(np.arange(F.dim), F.sector(na, nb))]) < 1e-14)
    return True
