"""Shared code of the Fock-oracle checks C01-C03 (and users C11, C13, C15): draw a measurement case, evaluate the
library's single-walker entry points and the exact second-quantised values."""
import numpy as np
from hypothesis import strategies as st

from . import gens, trialref
from .fockref import fock

COND_MAX = 1e4  # Wick-type formulas invert a walker block; beyond this the case is skipped and counted


def kinds_for_shard(kinds, shard, nshards):
    ks = [k for i, k in enumerate(kinds) if i % nshards == shard]
    return ks or kinds


@st.composite
def measurement_case(draw, tier, kinds, with_ham=False, orthonormal=None, restricted_walker=None, shapes=None, ham_kw=None):
    kind = draw(st.sampled_from(kinds))
    shp = list(shapes[kind] if shapes else gens.shapes_for(kind, tier))
    closed = [x for x in shp if x[1][0] == x[1][1]]
    if kind == "multislater" and restricted_walker is None and closed and draw(st.integers(0, 2)) == 0:
        # the restricted entry of the multi-Slater trial has its own reference handling and only exists for closed shells: a third of
        # the cases is drawn among the closed-shell shapes so that it is exercised at the quick count too
        shp = closed
    norb, nelec = draw(st.sampled_from(shp))
    params = draw(gens.trial_params(kind, norb, nelec, orthonormal))
    if restricted_walker is None:
        restricted = kind in gens.RESTRICTED_ONLY or (nelec[0] == nelec[1] and draw(st.integers(0, 1 if kind == "multislater" else 3)) == 0)  # multislater: the restricted entry has its own reference handling
    else:
        restricted = restricted_walker
    w = draw(gens.walker(norb, nelec, restricted=restricted, frame=gens.reference_frame(kind, norb, nelec, params)))
    case = {"kind": kind, "norb": norb, "nelec": list(nelec), "params": params, "walker": w, "restricted": restricted}
    if with_ham:
        spin_dep = kind in ("uhf", "ghf", "noci", "multislater", "UCISD", "GCISD") and not restricted and draw(st.booleans())
        case["ham"] = draw(gens.hamiltonian(norb, spin_dependent=spin_dep, **(ham_kw or {})))
        case["spin_dependent_h1"] = spin_dep
    return case


class Setup:
    """Everything derived from a case: library objects and exact Fock-space vectors."""

    def __init__(self, case, eps=None, n_batch=1):
        import jax.numpy as jnp

        self.case = case
        self.kind = case["kind"]
        self.norb = int(case["norb"])
        self.nelec = (int(case["nelec"][0]), int(case["nelec"][1]))
        self.params = case["params"]
        self.trial, self.wave_data, self.extra = gens.build_trial(self.kind, self.norb, self.nelec, self.params, n_batch=n_batch, eps=eps)
        self.up = np.asarray(case["walker"]["up"], complex).reshape(self.norb, self.nelec[0])
        self.dn = np.asarray(case["walker"]["dn"], complex).reshape(self.norb, self.nelec[1])
        self.restricted = bool(case.get("restricted", False))
        self.F = fock(self.norb)
        npwd = gens.numpy_wave_data(self.kind, self.norb, self.nelec, self.params)
        self.psi = trialref.trial_state(self.kind, self.norb, self.nelec, npwd, self.extra)
        self.phi = self.F.slater(self.up, self.dn)
        self.ovlp_exact = np.vdot(self.psi, self.phi)
        # magnitude against which round-off is judged: sum of absolute terms of the inner product, but never less than
        # (Hadamard bound of the walker determinant) x (1-norm of the trial amplitudes) x eps-free factor
        had = float(np.prod(np.linalg.norm(self.up, axis=0)) * np.prod(np.linalg.norm(self.dn, axis=0)))
        self.hadamard = had
        self.scale = max(float(np.sum(np.abs(self.psi) * np.abs(self.phi))), had * float(np.max(np.abs(self.psi))))
        self.cond = gens.reference_block_cond(self.kind, self.norb, self.nelec, self.params, self.up, self.dn)
        self.jup, self.jdn = jnp.asarray(self.up), jnp.asarray(self.dn)

    # library entry points -------------------------------------------------------------------
    def lib_overlap(self, restricted=None):
        restricted = self.restricted if restricted is None else restricted
        if restricted:
            return complex(self.trial._calc_overlap_restricted(self.jup, self.wave_data))
        return complex(self.trial._calc_overlap(self.jup, self.jdn, self.wave_data))

    def ham_data(self):
        H, hd = gens.build_ham(self.norb, self.case["ham"], self.trial, self.wave_data)
        return hd

    def lib_energy(self, hd, restricted=None):
        restricted = self.restricted if restricted is None else restricted
        if restricted:
            return complex(self.trial._calc_energy_restricted(self.jup, hd, self.wave_data))
        return complex(self.trial._calc_energy(self.jup, self.jdn, hd, self.wave_data))

    def lib_force_bias(self, hd, restricted=None):
        restricted = self.restricted if restricted is None else restricted
        if restricted:
            return np.asarray(self.trial._calc_force_bias_restricted(self.jup, hd, self.wave_data))
        return np.asarray(self.trial._calc_force_bias(self.jup, self.jdn, hd, self.wave_data))

    # exact values -----------------------------------------------------------------------------
    def exact_hamiltonian(self):
        ham = self.case["ham"]
        h1 = np.asarray(ham["h1"], float)
        if self.restricted or self.kind in ("rhf",) or self.kind in gens.RESTRICTED_ONLY:
            # restricted entry points see only the average of the two one-body matrices (exact for them)
            h1 = np.stack([(h1[0] + h1[1]) / 2] * 2)
        return self.F.hamiltonian(float(ham["h0"]), h1, np.asarray(ham["chol"], float))

    def exact_energy(self):
        H = self.exact_hamiltonian()
        terms = H @ self.phi
        return np.vdot(self.psi, terms) / self.ovlp_exact

    def exact_force_bias(self):
        chol = np.asarray(self.case["ham"]["chol"], float)
        return np.array([np.vdot(self.psi, self.F.one_body(L, L) @ self.phi) / self.ovlp_exact for L in chol])

    def classes(self):
        c = ["kind:" + self.kind, f"shape:{self.norb}:{self.nelec[0]},{self.nelec[1]}", "entry:" + ("restricted" if self.restricted else "unrestricted")]
        c.append("open-shell" if self.nelec[0] != self.nelec[1] else "closed-shell")
        if self.nelec[1] == 0:
            c.append("empty-down-channel")
        c.append("walker:" + str(self.case["walker"].get("variant", "?")))
        if self.kind == "multislater":
            d0 = self.params["dets"][0]
            na, nb = self.nelec
            occ_a = [i for i, o in enumerate(d0[0]) if o]
            occ_b = [i for i, o in enumerate(d0[1]) if o]
            c.append("multislater-ref:" + ("beta-is-leading-part-of-alpha" if occ_b == occ_a[:nb] else "beta-differs-from-alpha") + (":restricted" if self.restricted else ":unrestricted"))
        return c


def bucket_suffix(s: Setup):
    """Structural predicate of the failing input, used to key buckets."""
    parts = [s.kind, "restricted-entry" if s.restricted else "unrestricted-entry"]
    if s.kind == "multislater":
        d0 = s.params["dets"][0]
        na, nb = s.nelec
        aufbau = list(d0[0]) == [1] * na + [0] * (s.norb - na) and list(d0[1]) == [1] * nb + [0] * (s.norb - nb)
        parts.append("aufbau-ref" if aufbau else "non-aufbau-ref")
        if s.restricted and list(d0[0]) != list(d0[1]):
            parts.append("alpha-ref!=beta-ref")
    return ":".join(parts)



def first_order_share(rvecs, dts):
    """Share of the smallest residual that a term *linear* in dt explains.

    rvecs[i] is the residual vector at dts[i]; the last three dts must halve each time (h, h/2, h/4). With r(h) = a1 h + a2 h^2 + a3 h^3 + ...
    two Richardson steps on s(h) = r(h)/h remove the a2 and a3 terms: s1(h) = 2 s(h/2) - s(h), a1 ~ (4 s1(h/2) - s1(h))/3. A scheme whose
    local error is O(h^2) has a1 = 0 and the share is ~0 even where a cubic term of the opposite direction pulls the ratio of two
    consecutive residual *norms* below 3; a scheme with a first-order error has share ~1."""
    h0, h1, h2 = (float(d) for d in dts[-3:])
    assert abs(h0 / h1 - 2) < 1e-12 and abs(h1 / h2 - 2) < 1e-12
    r0, r1, r2 = (np.asarray(r) for r in rvecs[-3:])
    s0, s1, s2 = r0 / h0, r1 / h1, r2 / h2
    a1 = (4 * (2 * s2 - s1) - (2 * s1 - s0)) / 3
    den = float(np.linalg.norm(r2))
    return float(np.linalg.norm(a1)) * h2 / den if den > 0 else 0.0
