"""Helpers to run the library's sampler / driver the way mpi_jax does, inside a scratch directory (files are the interface)."""
import contextlib
import io
import os
import shutil
import tempfile

import numpy as np


@contextlib.contextmanager
def scratch_dir(prefix="verif_run_"):
    d = tempfile.mkdtemp(prefix=prefix)
    old = os.getcwd()
    os.chdir(d)
    try:
        yield d
    finally:
        os.chdir(old)
        shutil.rmtree(d, ignore_errors=True)


def default_options(**kw):
    o = {
        "dt": 0.01,
        "n_walkers": 6,
        "n_prop_steps": 5,
        "n_ene_blocks": 1,
        "n_sr_blocks": 1,
        "n_blocks": 3,
        "n_ene_blocks_eql": 1,
        "n_sr_blocks_eql": 1,
        "seed": 7,
        "n_eql": 1,
        "ad_mode": None,
        "orbital_rotation": True,
        "do_sr": True,
        "walker_type": "uhf",
        "symmetry": False,
        "save_walkers": False,
        "trial": None,
        "ene0": 0.0,
        "free_projection": False,
        "n_batch": 1,
    }
    o.update(kw)
    return o


def run_driver(ham_data, ham, prop, trial, wave_data, sampler, observable, options, init_walkers=None, keep=()):
    """driver.afqmc in a scratch directory; returns dict(e, err, samples_raw (n,3), stdout, files{name: bytes})."""
    from ad_afqmc import config, driver

    MPI = config.not_MPI()
    buf = io.StringIO()
    out = {}
    with scratch_dir() as d:
        with contextlib.redirect_stdout(buf):
            e, err = driver.afqmc(dict(ham_data), ham, prop, trial, dict(wave_data), sampler, observable, dict(options), MPI, init_walkers=init_walkers)
        out["e"], out["err"] = e, err
        out["samples_raw"] = np.atleast_2d(np.loadtxt("samples_raw.dat")) if os.path.exists("samples_raw.dat") else None
        out["files"] = {}
        for k in keep:
            if os.path.exists(k):
                with open(k, "rb") as f:
                    out["files"][k] = f.read()
    out["stdout"] = buf.getvalue()
    return out
